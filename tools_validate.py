import json,jsonschema,sys,glob
jsonschema.validate(json.load(open('/verif/MANIFEST.json')),json.load(open('/root/.vp/MANIFEST.schema.json')))
for f in glob.glob('/verif/evidence/*.json'):
    jsonschema.validate(json.load(open(f)),json.load(open('/root/.vp/EVIDENCE.schema.json')))
print('valid')
