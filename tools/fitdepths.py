#!/usr/bin/env python3
# Fits the (A,B) ring-depth bounds of the generated parser contracts: runs govc, raises B of a function
# whose depth post-condition fails, raises A of a callee whose depth pre-condition fails at a call site.
# The result is only a proposal: govc verifies the generated contracts.
import json,re,subprocess
P='/verif/tools/parser_depths.json'
PIN={'ParseStatement','ParseQuery'}
try: d=json.load(open(P))
except Exception: d={}
for it in range(12):
    subprocess.run(['python3','/verif/tools/genparser.py'],capture_output=True)
    out=subprocess.run(['/verif/bin/govc','check','-no-evidence','C04','quick'],capture_output=True,text=True,cwd='/verif')
    txt=out.stdout+out.stderr
    fails=re.findall(r'undischarged \(\*Parser\)\.(\w+)#(\S+)',txt)
    changed=False
    for fn,ob in fails:
        a,b=d.get(fn,[1,1])[:2]
        if ob.startswith('post@ensures2/'):
            if d.get(fn+'.strict',True): d[fn+'.strict']=False; changed=True
            elif b<3: d[fn]=[a,b+1]; changed=True
        m=re.match(r'pre@\(\*Parser\)\.(\w+)/requires2@',ob)
        if m:
            g=m.group(1); ga,gb=d.get(g,[1,1])
            if ga<3 and g not in PIN: d[g]=[ga+1,gb]; changed=True
        if ob.startswith('inv-'):
            l=d.get(fn+'.loop',1)
            if not d.get(fn+'.looploose',False): d[fn+'.looploose']=True; changed=True
            elif l<3: d[fn+'.loop']=l+1; changed=True
    print('iter',it,'failures',len(fails),'changed',changed, txt.strip().split('\n')[-1][:120])
    json.dump(d,open(P,'w'),indent=0,sort_keys=True)
    if not changed: break
