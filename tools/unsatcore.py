#!/usr/bin/env python3
# usage: unsatcore.py script.smt2 [extra-assert]  -- names every assert and prints the unsat core
import sys,subprocess,re
lines=open(sys.argv[1]).read().split('\n')
out=['(set-option :produce-unsat-cores true)']; names={}
k=0
for l in lines:
    if l.startswith('(assert ') and not l.startswith('(assert (!'):
        k+=1; n=f'a{k}'; names[n]=l
        out.append(f'(assert (! {l[8:-1]} :named {n}))')
    elif l.startswith('(get-value') or l.startswith('(set-option :produce-models'):
        continue
    else: out.append(l)
out.append('(get-unsat-core)')
r=subprocess.run(['z3-new','-smt2','-in','-T:120'],input='\n'.join(out),capture_output=True,text=True).stdout
print(r[:200])
core=re.findall(r'a\d+',r.split('\n',1)[1] if '\n' in r else '')
for n in core: print(n, names[n][:400])
