#!/usr/bin/env python3
# usage: findincons.py script.inc.smt2  -- finds the first assertion that makes the background inconsistent
import sys,subprocess,re
lines=open(sys.argv[1]).read().split('\n')
out=[];skip=0
for l in lines:
    if l.startswith('(push'): skip=1;continue
    if l.startswith('(pop'): skip=0;continue
    if skip: continue
    out.append(l)
def sat(n):
    s='\n'.join(out[:n])+'\n(check-sat)\n'
    r=subprocess.run(['z3-new','-smt2','-in','-T:20'],input=s,capture_output=True,text=True).stdout
    return r.strip().split('\n')[-1]
lo,hi=0,len(out)
print('full:',sat(hi))
if sat(hi)!='unsat': sys.exit()
while hi-lo>1:
    mid=(lo+hi)//2
    if sat(mid)=='unsat': hi=mid
    else: lo=mid
print('first inconsistent line',hi); print(out[hi-1][:600])
