#!/usr/bin/env python3
# Regenerates /verif/MANIFEST.json and /verif/propnotes.json from the table below.
import json, subprocess
props=[json.loads(l) for l in open('/verif/properties.jsonl')]
TECH="contract-based deductive verification: contracts in /repo/verif_contracts.go, weakest-precondition VCs generated from go/ssa by govc, discharged by z3-new/z3/cvc5"
TRUST="Trusted: govc encoder and contract resolution, x/tools SSA, the three solvers, Go runtime semantics as modelled, library models listed in evidence.trusted_base. "
claimed={
 "C03":dict(text="Contracts on Token.Precedence, Token.isOperator and IsRegexOp against spec functions written from the property's five levels, proved for the whole Token domain; lemmas tie the 18 operators to levels 1..5.",
   undecided=["ParseExpr tree-shape invariant (precedence climbing, left associativity) not yet under contract","print / re-parse clause (shared with C02)"],
   design="DESIGN.md §3 C03"),
 "C08":dict(text="ParseDuration under contract with ghost overflow tracking: every + - * on the accumulated duration is checked against mathematical integers, loop step clause fixes each component to n*unit for the unit table of the statement, error-free return implies no wrap; FormatDuration equals a spec formatter (largest dividing unit); SMT lemmas give divisibility, maximality and the round-trip arithmetic for all d except MinInt64.",
   undecided=["sequence-level sum over all components is the induction over the step clause (paper)","duration literals inside statements (Parser.ParseDuration, parseUnaryExpr) call ParseDuration; those call sites are not yet under contract","strconv.ParseInt is a trusted model (value of a digit run, error when it does not fit)"],
   design="DESIGN.md §3 C08"),
 "C06":dict(text="Escaper tables read from the replacers' initialisers and proved equal to the statement's escape function for every rune; ScanString's loop proved to implement the spec scan step on a ghost rune stream (kind, rune appended, runes consumed); SMT lemmas over all runes: scan step inverts the escape, escaped text can never terminate or break the literal, consumes exactly the escape; character classes equal the README classes; QuoteString wraps the replaced text in quotes.",
   undecided=["sequence-level statement ScanString(QuoteString(s)) == s is the induction over the per-rune lemmas (paper)","IdentNeedsQuotes equivalence with the bare scan, QuoteIdent segment rule, scanIdent: not yet under contract","strings.Replacer with single-ASCII-byte patterns rewrites rune by rune (trusted)"],
   design="DESIGN.md §3 C06"),
 "C04":dict(text="Zero-annotation safety sweep (nil dereference, index, slice, type assertion, division, explicit panic, nil-map write) plus generated contracts over all 81 Parser methods, the 41 statement-handler closures of the dispatch tree (function-type contract), ParseTree.Parse, the scanner and both ring buffers: pushback depth never exceeds the 3-slot token ring or rune ring at any Unscan/unread call site (bounds fitted by a script, every one verified), every parse function returns either an error or a non-nil, freshly allocated result, writes only memory it allocated plus its own parser/scanner/reader state (frame), and leaves the rings well-formed; SetParams/BindValue/bindObjectValue total and never store a nil value.",
   undecided=["10 generated obligations are listed as UNPROVED in evidence.assumptions (assumed, never counted): the ParseExpr tree invariant (5), the 'unexpected literal' panic of parseUnaryExpr (1), argument well-formedness carried through ParseExpr for parseFill/parseLocation (4)","running time proportional to input length, termination of the parser loops and goroutine stack depth are not decided by contracts","a returned result can be printed and traversed without panicking: see C13 (AST invariant is assumed there, only partly established here)","statement handlers registered by users of the exported Language variable are assumed to satisfy the handler contract"],
   design="DESIGN.md §3 C04"),
 "C07":dict(text="Parser.scan is the only place where substitution happens and it is a function of the raw token and the parameter map only: token position always comes from the scanner, non-placeholder tokens pass unchanged, parser state and the map are untouched; the value -> (token kind, literal) table of all eight Value kinds equals the statement's table; BindValue/bindObjectValue never return nil and SetParams stores only their results (map invariant: no nil value), which makes the TokenType/Value calls in scan safe; the token ring replays exactly the stored raw token on every re-scan after pushback (bufScanner.scanFunc/Unscan/curr contracts).",
   undecided=["equality of the resulting AST with the parse of the inlined text, for every template, needs grammar-level reasoning (C01) and is not claimed","placeholder nodes carrying exactly the bound value (parseUnaryExpr literal cases) and the BOUNDPARAM error case are not yet under contract","implementations of the Value interface outside the package are assumed pure"],
   design="DESIGN.md §3 C07"),
 "C05":dict(text="reader.read/unread/curr proved against a ghost rune stream under the underlying io.RuneScanner: CR and CRLF folding, end of input counted once, the position recurrence of the statement (line break -> (line+1,0), otherwise one column), ring-buffer replay returns exactly the stored (rune, position) pairs and touches neither the input nor the position; every Scanner function (Scan, scanWhitespace, scanIdent, scanString, scanNumber, scanDigits, ScanRegex, comment skipping, ScanString/ScanBareIdent/ScanDelimited through the io.RuneScanner interface with modular dynamic dispatch) keeps the 3-slot ring within bounds (pushback depth <= 3 for all inputs) and returns as token position the position of the next rune to be delivered.",
   undecided=["token extents / tiling (literal text of each token equals the runes consumed) and termination of the scanner loops are not under contract","*reader used through io.RuneScanner is assumed to behave as a rune stream (ReadRune = read, UnreadRune = unread)","input without NUL runes (property's own restriction) is a pre-condition of Scan","position increments are stated modulo 2^64","known finding F-C05-1: STRING/BADSTRING start one column early"],
   design="DESIGN.md §3 C05"),
 "C09":dict(text="Each reduceBinaryExpr<Kind>LHS function (boolean, integer, unsigned, float, string left operands) is proved, for every operator and every well-typed literal right operand and all operand values, to return either a literal whose value equals what the evaluator's evalBinaryExpr computes for the unfolded node (the real evaluator body is symbolically executed as the specification, integer division as float division) or a node with the same operator; ValuerEval.Eval on literals returns the literal's value.",
   undecided=["AND/OR short cuts of reduceBinaryExpr with a non-literal operand, reduceCall/reduceVarRef/reduceParenExpr, idempotence of Reduce, time and duration cells: not yet under contract","composition over whole expression trees is the induction over nodes (paper)","float operations are uninterpreted functions (both sides must apply the same operation to the same operands)","known finding F-C09-1: strings that look like time literals"],
   design="DESIGN.md §3 C09"),
 "C19":dict(text="All 45 RequiredPrivileges methods under contract: every administrative statement of the property's list returns an admin privilege, database-scoped statements name their database with the documented privilege, every fixed-table statement returns a non-empty list and nil error; Sources.RequiredPrivileges has per-iteration step clauses (a measurement appends exactly one read privilege on its database, a subquery appends exactly its statement's privileges, earlier entries are kept); SELECT with INTO ends with a write privilege on the target database; EXPLAIN and CREATE CONTINUOUS QUERY covered.",
   undecided=["coverage of every measurement at every depth is the induction over the loop step clauses and the recursion (paper)","nil error of SELECT over arbitrary nesting depends on the AST invariant (sources are measurements or subqueries), which is assumed for parser output"],
   design="DESIGN.md §3 C19"),
}
checks=[]
for pid,c in sorted(claimed.items()):
    checks.append({"property_id":pid,"quick_cmd":f"./check {pid} quick","thorough_cmd":f"./check {pid} thorough","evidence_file":f"/verif/evidence/{pid}.json",
      "replay_cmd_template":"./check --replay {path}","engine":"govc",
      "level_claimed":{"category":"proof","text":c["text"],"design_ref":c["design"]},
      "level_note":TRUST+"Not decided by this check: "+"; ".join(c["undecided"]),
      "technique":TECH})
NA={}
na=[{"property_id":p['id'],"reason":NA.get(p['id'],"no contract-based check built yet in this round (planned in DESIGN.md §8 build order); nothing is claimed")} for p in props if p['id'] not in claimed]
commits=subprocess.run("git -C /repo log --format=%h --grep='^verif:'",shell=True,capture_output=True,text=True).stdout.split()
m={"version":1,
 "setup_cmd":"cd /verif/govc && GOFLAGS=-mod=vendor GOPROXY=off GOSUMDB=off GOTOOLCHAIN=local go build -o /verif/bin/govc .",
 "hooks":{"guard":"verif","enable":"go build -tags verif (govc loads /repo with -tags=verif; replay uses go test -tags verif -overlay)","baseline_off_cmd":"cd /repo && go test -vet=off -count=1 ./...","source_commits":commits,"add_only":True},
 "engines":[{"name":"govc","path":"/verif/govc","serves_properties":sorted(claimed),"kind_free_text":"VC generator over go/ssa (x/tools v0.29.0, vendored) with contracts in /repo/verif_contracts*.go and Go spec functions in /repo/verif_spec.go (both build tag verif); SMT-LIB obligations discharged by z3-new 5.1.0, z3 4.8.12, cvc5 1.0"}],
 "checks":checks,"not_applicable":na,
 "notes":"Contract-based deductive verification of the real code; see DESIGN.md. Known findings: /verif/known_findings.json. Must-fail corpus: /verif/mutants (tools/mutcheck)."}
json.dump(m,open('/verif/MANIFEST.json','w'),indent=1)
notes={pid:{"undecided_clauses":c["undecided"],"assumptions":[]} for pid,c in claimed.items()}
json.dump(notes,open('/verif/propnotes.json','w'),indent=1)
print("manifest:",sorted(claimed))
