package influxql

// Bounded stand-in for the clauses of C12 that the contracts do not reach (the
// expansion loops of RewriteFields have safety and frame contracts only).
// Bound: 4 schemas (one and two measurements, overlapping field names with
// conflicting types including unsigned, tags shadowing fields, many tags) x 15
// statements (whole-field wildcards with and without type filter, regex fields,
// wildcard and regex GROUP BY, wildcards inside one and two calls, untyped
// references) x 25 repetitions (map iteration order). Oracle written from the
// property statement: expansion = the matching schema columns sorted by name,
// with the type of highest precedence, tags left out of calls and of the field
// list when grouped by; same text on every repetition. Labelled bounded.

import (
	"fmt"
	"regexp"
	"sort"
	"strings"
	"testing"
)

type c12schema map[string]struct {
	fields map[string]DataType
	tags   []string
}

type c12mapper struct {
	s c12schema
	// the mapper serves its own stored maps (as a real schema cache does): RewriteFields must not edit them
	dims map[string]map[string]struct{}
}

func newC12mapper(s c12schema) c12mapper {
	m := c12mapper{s: s, dims: map[string]map[string]struct{}{}}
	for name, e := range s {
		d := map[string]struct{}{}
		for _, t := range e.tags {
			d[t] = struct{}{}
		}
		m.dims[name] = d
	}
	return m
}

func (m c12mapper) FieldDimensions(mm *Measurement) (map[string]DataType, map[string]struct{}, error) {
	if e, ok := m.s[mm.Name]; ok {
		return e.fields, m.dims[mm.Name], nil
	}
	return map[string]DataType{}, map[string]struct{}{}, nil
}

func (m c12mapper) intact() bool {
	for name, e := range m.s {
		if len(m.dims[name]) != len(e.tags) {
			return false
		}
	}
	return true
}

func (m c12mapper) MapType(mm *Measurement, field string) DataType {
	if e, ok := m.s[mm.Name]; ok {
		if t, ok := e.fields[field]; ok {
			return t
		}
		for _, tg := range e.tags {
			if tg == field {
				return Tag
			}
		}
	}
	return Unknown
}

var c12rank = map[DataType]int{Float: 9, Integer: 8, Unsigned: 7, String: 6, Boolean: 5, Time: 4, Duration: 3, Tag: 2, AnyField: 1, Unknown: 0}

func TestZZBoundedC12(t *testing.T) {
	fmt.Println("BOUNDED-BOUND: 4 schemas x 19 statements x 25 repetitions; oracle: sorted matching columns with the highest-precedence type, tags out of calls and out of grouped fields, identical text on every repetition")
	type ms = struct {
		fields map[string]DataType
		tags   []string
	}
	schemas := []c12schema{
		{"a": ms{map[string]DataType{"v": Float, "w": Integer, "s": String, "b": Boolean, "u": Unsigned}, []string{"host", "region"}}},
		{"a": ms{map[string]DataType{"v": String, "w": Unsigned, "x": Integer}, []string{"host"}}, "b": ms{map[string]DataType{"v": Unsigned, "w": Boolean, "y": Float}, []string{"host", "dc"}}},
		{"a": ms{map[string]DataType{"host": Float, "v": Integer}, []string{"host", "t1", "t2", "t3", "t4", "t5", "t6", "t7", "t8"}}},
		{"a": ms{map[string]DataType{}, nil}, "b": ms{map[string]DataType{"v": Float}, []string{"host"}}},
	}
	stmts := []string{
		"SELECT * FROM %s", "SELECT *::field FROM %s", "SELECT *::tag FROM %s", "SELECT * FROM %s GROUP BY host",
		"SELECT v FROM %s GROUP BY *", "SELECT v FROM %s GROUP BY /t|host/", "SELECT /v|w|host/ FROM %s",
		"SELECT mean(*) FROM %s", "SELECT count(*), mean(*) FROM %s", "SELECT max(/v|w/) FROM %s",
		"SELECT v, w FROM %s", "SELECT * FROM (SELECT v, w FROM %s)",
		"SELECT cumulative_sum(derivative(mean(*))) FROM %s GROUP BY time(1m)", "SELECT derivative(mean(/v|w/)) FROM %s GROUP BY time(1m)",
		"SELECT mean(v) FROM (SELECT host, v FROM %s GROUP BY host, region) GROUP BY *",
		"SELECT /^(w|host|v|w)$/ FROM %s", "SELECT * FROM (SELECT v, nosuch FROM %s)",
		"SELECT w, host FROM (SELECT * FROM %s)", "SELECT v FROM %s GROUP BY /ost/, /egion$/",
	}
	total, ok := 0, 0
	fails := map[string]int{}
	first := map[string]string{}
	fail := func(c, msg string) {
		fails[c]++
		if first[c] == "" {
			first[c] = msg
		}
	}
	for si, sc := range schemas {
		var names []string
		for n := range sc {
			names = append(names, n)
		}
		sort.Strings(names)
		from := strings.Join(names, ", ")
		// merged schema (reference): highest precedence wins; a name that is a tag anywhere is a tag column too
		fieldT := map[string]DataType{}
		tagSet := map[string]bool{}
		for _, e := range sc {
			for k, v := range e.fields {
				if cur, have := fieldT[k]; !have || c12rank[v] > c12rank[cur] {
					fieldT[k] = v
				}
			}
			for _, tg := range e.tags {
				tagSet[tg] = true
			}
		}
		mapper := newC12mapper(sc)
		fieldCount := map[string]int{}
		for n, e := range sc {
			fieldCount[n] = len(e.fields)
		}
		for qi, q := range stmts {
			text := fmt.Sprintf(q, from)
			st, err := ParseStatement(text)
			if err != nil {
				fail("corpus-statement-rejected", text+": "+err.Error())
				continue
			}
			var outs []string
			for rep := 0; rep < 25; rep++ {
				total++
				r, err := st.(*SelectStatement).RewriteFields(mapper)
				if err != nil {
					outs = append(outs, "error: "+err.Error())
					continue
				}
				outs = append(outs, r.String())
			}
			for n, e := range sc {
				if len(e.fields) != fieldCount[n] {
					fail("schema-mutated", fmt.Sprintf("schema %d: %q changed the field map of %s", si, text, n))
				}
			}
			if !mapper.intact() {
				fail("schema-mutated", fmt.Sprintf("schema %d: %q changed the mapper's tag set", si, text))
				mapper = newC12mapper(sc)
			}
			det := true
			for _, o := range outs[1:] {
				if o != outs[0] {
					det = false
				}
			}
			if !det {
				fail("nondeterministic-expansion", fmt.Sprintf("schema %d: %q gave %q and also other texts", si, text, outs[0]))
				continue
			}
			// reference for the three statements whose expansion the property fixes completely
			want := ""
			var cols []string
			switch qi {
			case 0: // SELECT *
				for k, v := range fieldT {
					cols = append(cols, k+"::"+v.String())
				}
				for tg := range tagSet {
					cols = append(cols, tg+"::tag")
				}
				sort.Strings(cols)
				want = "SELECT " + strings.Join(cols, ", ") + " FROM " + from
			case 3: // SELECT * ... GROUP BY host: the grouped tag is not a field
				for k, v := range fieldT {
					cols = append(cols, k+"::"+v.String())
				}
				for tg := range tagSet {
					if tg != "host" {
						cols = append(cols, tg+"::tag")
					}
				}
				sort.Strings(cols)
				want = "SELECT " + strings.Join(cols, ", ") + " FROM " + from + " GROUP BY host"
			case 4: // GROUP BY *
				for tg := range tagSet {
					cols = append(cols, tg)
				}
				sort.Strings(cols)
				want = "SELECT v::" + fieldT["v"].String() + " FROM " + from + " GROUP BY " + strings.Join(cols, ", ")
				if _, have := fieldT["v"]; !have {
					want = ""
				}
			case 6: // SELECT /v|w|host/: a regex standing as a whole field expands to the matching fields and tag keys
				re := regexp.MustCompile("v|w|host")
				for k, v := range fieldT {
					if re.MatchString(k) {
						cols = append(cols, k+"::"+v.String())
					}
				}
				for tg := range tagSet {
					if re.MatchString(tg) {
						cols = append(cols, tg+"::tag")
					}
				}
				sort.Strings(cols)
				want = "SELECT " + strings.Join(cols, ", ") + " FROM " + from
			case 15: // an anchored alternation: still the matching columns once each, sorted by name
				for _, k := range []string{"host", "v", "w"} {
					if v, have := fieldT[k]; have {
						cols = append(cols, k+"::"+v.String())
					}
					if tagSet[k] {
						cols = append(cols, k+"::tag")
					}
				}
				sort.Strings(cols)
				want = "SELECT " + strings.Join(cols, ", ") + " FROM " + from
			case 16: // a subquery column without a known type is still a column of the subquery
				if !strings.HasPrefix(outs[0], "error") && !strings.Contains(strings.SplitN(outs[0], " FROM ", 2)[0], "nosuch") {
					fail("untyped-subquery-column-lost", fmt.Sprintf("schema %d: %q -> %q", si, text, outs[0]))
				}
			case 17: // references to columns that exist only after the subquery's wildcard is expanded get their types
				if !strings.HasPrefix(outs[0], "error") {
					head := strings.SplitN(outs[0], " FROM ", 2)[0]
					if t, have := fieldT["w"]; have && !strings.Contains(head, "w::"+t.String()) {
						fail("outer-reference-untyped", fmt.Sprintf("schema %d: %q -> %q", si, text, outs[0]))
					}
					if _, isField := fieldT["host"]; !isField && tagSet["host"] && !strings.Contains(head, "host::tag") {
						fail("outer-reference-untyped", fmt.Sprintf("schema %d: %q -> %q", si, text, outs[0]))
					}
				}
			case 18: // GROUP BY /regex/ is unanchored: every tag key that contains a match
				for tg := range tagSet {
					if strings.Contains(tg, "ost") || strings.HasSuffix(tg, "egion") {
						cols = append(cols, tg)
					}
				}
				sort.Strings(cols)
				if _, have := fieldT["v"]; have && len(cols) > 0 && !strings.HasSuffix(outs[0], " GROUP BY "+strings.Join(cols, ", ")) {
					fail("group-by-regex-lost-keys", fmt.Sprintf("schema %d: %q -> %q, expected GROUP BY %s", si, text, outs[0], strings.Join(cols, ", ")))
				}
				cols = nil
			case 14: // the GROUP BY keys of a subquery are the tag keys an outer GROUP BY * expands to, selected or not
				if !strings.HasPrefix(outs[0], "error") && !strings.HasSuffix(outs[0], " GROUP BY host, region") {
					fail("subquery-dimensions-lost", fmt.Sprintf("schema %d: %q -> %q", si, text, outs[0]))
				}
			case 7, 8, 9: // calls: no tag may be expanded inside a call
				for tg := range tagSet {
					if _, isField := fieldT[tg]; !isField && strings.Contains(outs[0], "("+tg+"::tag)") {
						fail("tag-expanded-inside-call", fmt.Sprintf("schema %d: %q -> %q", si, text, outs[0]))
					}
				}
				if qi == 8 && strings.Contains(outs[0], "mean(s::string)") {
					fail("type-filter-leaks-between-calls", fmt.Sprintf("schema %d: %q -> %q", si, text, outs[0]))
				}
			}
			// a wildcard or regex that stands as (possibly nested) first call argument is always replaced or removed
			if qi >= 12 && qi <= 13 && (strings.Contains(outs[0], "(*)") || strings.Contains(outs[0], "(/")) {
				numeric := false
				for _, v := range fieldT {
					if v == Float || v == Integer || v == Unsigned {
						numeric = true
					}
				}
				if numeric {
					fail("nested-call-wildcard-not-expanded", fmt.Sprintf("schema %d: %q -> %q", si, text, outs[0]))
				}
			}
			if want != "" && len(cols) > 0 && outs[0] != want {
				fail("expansion-differs-from-schema", fmt.Sprintf("schema %d: %q -> %q, expected %q", si, text, outs[0], want))
				continue
			}
			ok += 25
		}
	}
	fmt.Printf("BOUNDED-COUNT: generated=%d accepted=%d\n", total, ok)
	for c, n := range fails {
		fmt.Printf("BOUNDED-FAIL: %s count=%d first=%s\n", c, n, first[c])
	}
}
