package influxql

// Bounded stand-in for the part of C10 the contracts do not reach: which texts
// count as time literals and which instant each denotes (the regular
// expressions and layouts of StringLiteral.ToTimeLiteral are library calls on
// opaque strings). Bound: 9 instants x 9 literal spellings (integer
// nanoseconds, duration since the epoch, date only, date and time with 0 / 3 / 6
// fractional digits, RFC3339 with Z, RFC3339 with an offset, RFC3339 with
// nanoseconds, now() plus / minus a duration) x 5 operators x time on either
// side x with / without a residual predicate. Oracle written from the property
// statement: the instant is the one the spelling was produced from, strict
// bounds move by one nanosecond, the residual is the other predicate (nil when
// there is none). Labelled bounded.

import (
	"fmt"
	"testing"
	"time"
)

func TestZZBoundedC10(t *testing.T) {
	fmt.Println("BOUNDED-BOUND: 9 instants x 9 literal spellings x 5 operators x 2 sides x 2 (with/without residual); oracle: range bound = instant the spelling was produced from, moved by 1ns for strict operators; residual = the other predicate")
	now := time.Date(2020, 5, 6, 7, 8, 9, 123456789, time.UTC)
	instants := []time.Time{
		time.Date(2000, 1, 2, 0, 0, 0, 0, time.UTC),
		time.Date(2000, 1, 2, 3, 4, 5, 0, time.UTC),
		time.Date(2000, 1, 2, 3, 4, 5, 678000000, time.UTC),
		time.Date(2000, 1, 2, 3, 4, 5, 678901000, time.UTC),
		time.Date(2000, 1, 2, 3, 4, 5, 678901234, time.UTC),
		time.Date(1970, 1, 1, 0, 0, 0, 1, time.UTC),
		time.Date(1969, 12, 31, 23, 59, 59, 0, time.UTC),
		time.Date(2261, 12, 31, 0, 0, 0, 0, time.UTC),
		time.Date(1700, 2, 28, 12, 0, 0, 0, time.UTC),
	}
	type form struct {
		name string
		// text of the literal and whether this spelling can express the instant exactly
		text func(ts time.Time) (string, bool)
	}
	est := time.FixedZone("", 2*3600)
	forms := []form{
		{"integer-ns", func(ts time.Time) (string, bool) { return fmt.Sprintf("%d", ts.UnixNano()), ts.UnixNano() >= 0 }},
		{"duration", func(ts time.Time) (string, bool) { return fmt.Sprintf("%dns", ts.UnixNano()), ts.UnixNano() >= 0 }},
		{"date", func(ts time.Time) (string, bool) {
			return "'" + ts.Format("2006-01-02") + "'", ts.Equal(ts.Truncate(24 * time.Hour))
		}},
		{"datetime", func(ts time.Time) (string, bool) { return "'" + ts.Format("2006-01-02 15:04:05") + "'", ts.Nanosecond() == 0 }},
		{"datetime-ms", func(ts time.Time) (string, bool) {
			return "'" + ts.Format("2006-01-02 15:04:05.000") + "'", ts.Nanosecond()%1000000 == 0
		}},
		{"datetime-us", func(ts time.Time) (string, bool) {
			return "'" + ts.Format("2006-01-02 15:04:05.000000") + "'", ts.Nanosecond()%1000 == 0
		}},
		{"rfc3339-z", func(ts time.Time) (string, bool) { return "'" + ts.Format(time.RFC3339) + "'", ts.Nanosecond() == 0 }},
		{"rfc3339-offset", func(ts time.Time) (string, bool) { return "'" + ts.In(est).Format(time.RFC3339Nano) + "'", true }},
		{"now-offset", func(ts time.Time) (string, bool) {
			d := ts.Sub(now)
			if ts.Add(-d) != now || d == 0 { // saturated Sub
				return "", false
			}
			if d < 0 {
				return fmt.Sprintf("now() - %dns", -int64(d)), true
			}
			return fmt.Sprintf("now() + %dns", int64(d)), true
		}},
	}
	ops := []struct {
		op, flipped string
	}{{"=", "="}, {"<", ">"}, {"<=", ">="}, {">", "<"}, {">=", "<="}}
	total, ok := 0, 0
	fails := map[string]int{}
	first := map[string]string{}
	fail := func(c, msg string) {
		fails[c]++
		if _, seen := first[c]; !seen {
			first[c] = msg
		}
	}
	for _, ts := range instants {
		for _, f := range forms {
			lit, exact := f.text(ts)
			if !exact {
				continue
			}
			for _, o := range ops {
				for side := 0; side < 2; side++ {
					for res := 0; res < 2; res++ {
						var text string
						if side == 0 {
							text = "time " + o.op + " " + lit
						} else {
							text = lit + " " + o.flipped + " time"
						}
						if res == 1 {
							text = "host = 'a' AND " + text
						}
						total++
						class := f.name + "/" + o.op
						expr, err := ParseExpr(text)
						if err != nil {
							fail("parse:"+class, text+": "+err.Error())
							continue
						}
						cond, tr, err := ConditionExpr(expr, &NowValuer{Now: now})
						if err != nil {
							fail("error:"+class, text+": "+err.Error())
							continue
						}
						var wantMin, wantMax time.Time
						switch o.op {
						case "=":
							wantMin, wantMax = ts, ts
						case "<":
							wantMax = ts.Add(-1)
						case "<=":
							wantMax = ts
						case ">":
							wantMin = ts.Add(1)
						case ">=":
							wantMin = ts
						}
						same := func(a, b time.Time) bool { return a.IsZero() == b.IsZero() && (a.IsZero() || a.Equal(b)) }
						if !same(tr.Min, wantMin) || !same(tr.Max, wantMax) {
							fail("range:"+class, fmt.Sprintf("%s: range [%v, %v], want [%v, %v]", text, tr.Min, tr.Max, wantMin, wantMax))
							continue
						}
						if res == 0 && cond != nil {
							fail("residual:"+class, fmt.Sprintf("%s: residual %s, want none", text, cond))
							continue
						}
						if res == 1 && (cond == nil || cond.String() != "host = 'a'") {
							fail("residual:"+class, fmt.Sprintf("%s: residual %v, want host = 'a'", text, cond))
							continue
						}
						ok++
					}
				}
			}
		}
	}
	fmt.Printf("BOUNDED-COUNT: generated=%d accepted=%d\n", total, ok)
	for c, n := range fails {
		fmt.Printf("BOUNDED-FAIL: class=%s count=%d first=%q\n", c, n, first[c])
	}
}
