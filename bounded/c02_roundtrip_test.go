package influxql

// Bounded stand-in for C02 as a whole (no contract reaches the composition of
// every printer with the parser; the formatters it goes through are under
// contract: C06 quoting, C08 durations). Bound: the statements below - every
// statement family, every option of the big statements switched on at least
// once, names that need quoting or escaping, keywords as names, extreme and
// fractional numbers and durations, negated operands, regexes with slashes,
// nested subqueries. For each: parse, print, parse the printed text, and compare
// the two ASTs structurally (node kinds, names, literal values and types,
// operators, grouping, options and flags; regular expressions by their source
// text; passwords excluded, they are redacted on purpose). Labelled bounded.

import (
	"fmt"
	"reflect"
	"regexp"
	"strings"
	"testing"
	"time"
)

func c02diff(path string, a, b reflect.Value) string {
	if a.IsValid() != b.IsValid() {
		return path + ": one side missing"
	}
	if !a.IsValid() {
		return ""
	}
	if a.Type() != b.Type() {
		return fmt.Sprintf("%s: %s vs %s", path, a.Type(), b.Type())
	}
	switch a.Kind() {
	case reflect.Ptr:
		if a.IsNil() || b.IsNil() {
			if a.IsNil() != b.IsNil() {
				return path + ": nil vs non-nil"
			}
			return ""
		}
		if ra, ok := a.Interface().(*regexp.Regexp); ok {
			if rb := b.Interface().(*regexp.Regexp); ra.String() != rb.String() {
				return fmt.Sprintf("%s: regex %q vs %q", path, ra.String(), rb.String())
			}
			return ""
		}
		if _, ok := a.Interface().(*time.Location); ok {
			if a.Interface().(*time.Location).String() != b.Interface().(*time.Location).String() {
				return path + ": location"
			}
			return ""
		}
		return c02diff(path, a.Elem(), b.Elem())
	case reflect.Interface:
		if a.IsNil() || b.IsNil() {
			if a.IsNil() != b.IsNil() {
				return path + ": nil vs non-nil"
			}
			return ""
		}
		return c02diff(path, a.Elem(), b.Elem())
	case reflect.Struct:
		if ta, ok := a.Interface().(time.Time); ok {
			if !ta.Equal(b.Interface().(time.Time)) {
				return path + ": time"
			}
			return ""
		}
		for i := 0; i < a.NumField(); i++ {
			name := a.Type().Field(i).Name
			if name == "Password" || name == "groupByInterval" {
				continue
			}
			if d := c02diff(path+"."+name, a.Field(i), b.Field(i)); d != "" {
				return d
			}
		}
		return ""
	case reflect.Slice:
		if a.Len() != b.Len() {
			return fmt.Sprintf("%s: length %d vs %d", path, a.Len(), b.Len())
		}
		for i := 0; i < a.Len(); i++ {
			if d := c02diff(fmt.Sprintf("%s[%d]", path, i), a.Index(i), b.Index(i)); d != "" {
				return d
			}
		}
		return ""
	case reflect.Map:
		return ""
	case reflect.Func, reflect.Chan:
		return ""
	default:
		if a.CanInterface() && b.CanInterface() {
			if !reflect.DeepEqual(a.Interface(), b.Interface()) {
				return fmt.Sprintf("%s: %v vs %v", path, a.Interface(), b.Interface())
			}
			return ""
		}
		if fmt.Sprint(a) != fmt.Sprint(b) {
			return fmt.Sprintf("%s: %v vs %v", path, a, b)
		}
		return ""
	}
}

func TestZZBoundedC02(t *testing.T) {
	fmt.Println("BOUNDED-BOUND: 161 statements (every statement family, every option of SELECT / SHOW / CREATE / ALTER, names needing quotes and escapes, keywords as names, extreme numbers and durations, negated operands, regexes with slashes, nested subqueries): parse, print, re-parse, structural comparison")
	corpus := []string{
		`SELECT mean(value) FROM cpu WHERE host = 'a' AND time > now() - 1h GROUP BY time(5m), host fill(none) ORDER BY time DESC LIMIT 5 OFFSET 2 SLIMIT 3 SOFFSET 1 tz('UTC')`,
		`SELECT mean(value) FROM cpu GROUP BY time(5m, 1m) fill(0)`,
		`SELECT mean(value) FROM cpu GROUP BY time(5m, -1m) fill(previous)`,
		`SELECT mean(value) FROM cpu GROUP BY time(5m) fill(linear)`,
		`SELECT mean(value) FROM cpu GROUP BY time(5m) fill(3.5)`,
		`SELECT mean(value) FROM cpu GROUP BY time(5m) fill(null)`,
		`SELECT value INTO db1.rp1.out FROM db0.rp0.cpu WHERE value > 1.5`,
		`SELECT value INTO "my db"."r p".:MEASUREMENT FROM /cpu.*/`,
		`SELECT value INTO out FROM cpu`,
		`SELECT count(distinct(value)) FROM cpu`,
		`SELECT DISTINCT value FROM cpu`,
		`SELECT distinct(value) FROM cpu`,
		`SELECT * FROM /cpu.*/ WHERE host =~ /a.*/ AND region !~ /b/`,
		`SELECT * FROM cpu WHERE path =~ /\/var\/log/`,
		`SELECT value FROM (SELECT value FROM cpu WHERE value > 0) WHERE value < 10`,
		`SELECT max(v) FROM (SELECT mean(value) AS v FROM (SELECT value FROM cpu) GROUP BY time(1m)) GROUP BY host`,
		`SELECT value::float, host::tag, n::integer, s::string, b::boolean, u::unsigned, f::field FROM cpu`,
		`SELECT -value, - 1, 2 * -x, a / -b, a - -b FROM cpu`,
		`SELECT -(a + b) * c FROM cpu`,
		`SELECT (a + b) * (c - d) / e % f FROM cpu`,
		`SELECT a & b | c ^ d FROM cpu`,
		`SELECT a + b * c - d / e FROM cpu`,
		`SELECT value FROM cpu WHERE a = 1 OR b != 2 AND c <> 3 OR NOT_A_KEYWORD > 4`,
		`SELECT value FROM cpu WHERE (a = 1 OR b = 2) AND (c = 3 OR (d = 4 AND e = 5))`,
		`SELECT value FROM cpu WHERE a <= 1 AND b >= 2 AND c < 3 AND d > 4`,
		`SELECT top(value, host, 3), bottom(value, 2) FROM cpu`,
		`SELECT percentile(value, 99.9) AS p, derivative(mean(value), 10s) FROM cpu GROUP BY time(1m)`,
		`SELECT value AS "my value", value AS "select" FROM cpu`,
		`SELECT value AS value, mean(value) AS mean, a + b AS a_b, "FROM" AS "SELECT", "Limit", "TRUE", "Database" FROM cpu`,
		`SELECT "FROM" FROM "Select"."Where"."Group" WHERE "AND" = 'x' GROUP BY "Time", "BY"`,
		`SELECT value FROM cpu WHERE host =~ /a\\\/b/ AND path !~ /\/x\\y/`,
		`SELECT ((value)), (((a + b))) * c FROM cpu WHERE ((host = 'a')) AND (((x)) > 1)`,
		`SHOW SERIES CARDINALITY OFFSET 3`, `SHOW MEASUREMENT CARDINALITY ON db OFFSET 2`, `SHOW TAG KEY CARDINALITY OFFSET 1`,
		`SHOW FIELD KEY CARDINALITY LIMIT 4`, `SHOW TAG VALUES CARDINALITY WITH KEY = host OFFSET 5`, `SHOW SERIES EXACT CARDINALITY ON db FROM cpu GROUP BY host LIMIT 2 OFFSET 7`,
		"SELECT \"a\tb\", \"c\u00e9d\", \"e\x01f\" FROM \"m\tn\" WHERE s = 'x\ty\u2028z'",
		`SELECT value FROM cpu ORDER BY ASC`,
		`SELECT value FROM cpu ORDER BY ASC LIMIT 5`,
		`SHOW SERIES ORDER BY ASC LIMIT 2`,
		`SELECT "cpu.load.avg.1m", mean("a.b.c.d.e") FROM system WHERE "a.b.c.d" > 1 GROUP BY "x.y.z.w"`,
		`SELECT "select", "from", "my field", "a\"b", "a\\b", "a'b" FROM "my measurement"`,
		`SELECT value FROM "db"."rp"."m", "db"..m2`,
		`SELECT value FROM "select"."from"."where"`,
		`SELECT value FROM cpu WHERE s = 'it\'s' OR s = 'a\\b' OR s = 'line\nbreak' OR s = '"q"'`,
		`SELECT value FROM cpu WHERE time >= '2000-01-01T00:00:00Z' AND time < '2000-01-02'`,
		`SELECT value FROM cpu WHERE time > now() - 9223372036854775807ns`,
		`SELECT value FROM cpu WHERE d > 1ns AND d > 1u AND d > 1ms AND d > 1s AND d > 1m AND d > 1h AND d > 1d AND d > 1w AND d > 90m AND d > 36h`,
		`SELECT value FROM cpu WHERE n = 9223372036854775807 OR n = -9223372036854775808 OR n = 18446744073709551615`,
		`SELECT value FROM cpu WHERE f = 1.0 OR f = 0.000001 OR f = 1000000000000000000000.0 OR f = 2.5`,
		`SELECT value FROM cpu WHERE b = true AND c = false`,
		`SELECT value FROM cpu WHERE "time zone" = 'x' tz('America/New_York')`,
		`SHOW DATABASES`,
		`SHOW MEASUREMENTS ON db WITH MEASUREMENT =~ /cpu/ WHERE host = 'a' LIMIT 3 OFFSET 1`,
		`SHOW MEASUREMENTS ON "my db" WITH MEASUREMENT = "my m" ORDER BY ASC`,
		`SHOW MEASUREMENTS WITH MEASUREMENT = db.rp.cpu`,
		`SHOW SERIES ON db FROM cpu, /mem.*/ WHERE host = 'a' LIMIT 1 OFFSET 2`,
		`SHOW TAG KEYS ON db FROM cpu WHERE host = 'a' LIMIT 1 SLIMIT 2 SOFFSET 3`,
		`SHOW TAG KEYS WITH KEY IN (host, region)`,
		`SHOW TAG VALUES ON db FROM cpu WITH KEY IN (host, "my key") WHERE host = 'a' LIMIT 4`,
		`SHOW TAG VALUES WITH KEY =~ /ho.*/`,
		`SHOW TAG VALUES WITH KEY != host`,
		`SHOW FIELD KEYS ON db FROM cpu LIMIT 1 OFFSET 1`,
		`SHOW RETENTION POLICIES ON "my db"`,
		`SHOW SERIES CARDINALITY ON db`,
		`SHOW SERIES EXACT CARDINALITY ON db FROM cpu WHERE host = 'a' GROUP BY host LIMIT 1 OFFSET 1`,
		`SHOW MEASUREMENT CARDINALITY ON db`,
		`SHOW MEASUREMENT EXACT CARDINALITY ON db FROM cpu`,
		`SHOW TAG KEY CARDINALITY ON db`,
		`SHOW TAG KEY EXACT CARDINALITY FROM cpu`,
		`SHOW TAG VALUES CARDINALITY WITH KEY = host`,
		`SHOW TAG VALUES EXACT CARDINALITY ON db FROM cpu WITH KEY = host`,
		`SHOW FIELD KEY CARDINALITY ON db`,
		`SHOW GRANTS FOR "my user"`,
		`SHOW SHARDS`, `SHOW SHARD GROUPS`, `SHOW STATS`, `SHOW STATS FOR 'runtime'`, `SHOW DIAGNOSTICS FOR 'build'`, `SHOW USERS`, `SHOW QUERIES`, `SHOW SUBSCRIPTIONS`, `SHOW CONTINUOUS QUERIES`,
		`CREATE DATABASE db`,
		`CREATE DATABASE "my db" WITH DURATION 1h REPLICATION 2 SHARD DURATION 30m NAME "my rp"`,
		`CREATE RETENTION POLICY rp ON db DURATION 1h REPLICATION 1 SHARD DURATION 15m DEFAULT`,
		`CREATE RETENTION POLICY "r p" ON "d b" DURATION 0s REPLICATION 3`,
		`ALTER RETENTION POLICY rp ON db DURATION 2h REPLICATION 2 SHARD DURATION 1h DEFAULT`,
		`ALTER RETENTION POLICY rp ON db DEFAULT`,
		`CREATE USER "my user" WITH PASSWORD 'p'`,
		`CREATE USER u WITH PASSWORD 'p' WITH ALL PRIVILEGES`,
		`SET PASSWORD FOR "my user" = 'p'`,
		`GRANT READ ON db TO u`, `GRANT WRITE ON "my db" TO "my user"`, `GRANT ALL ON db TO u`, `GRANT ALL PRIVILEGES TO u`,
		`REVOKE WRITE ON db FROM u`, `REVOKE ALL PRIVILEGES FROM u`,
		`CREATE CONTINUOUS QUERY cq ON db RESAMPLE EVERY 1m FOR 2m BEGIN SELECT mean(value) INTO out FROM cpu GROUP BY time(1m) END`,
		`CREATE CONTINUOUS QUERY "my cq" ON "my db" BEGIN SELECT count(value) INTO "my db"."my rp".out FROM cpu GROUP BY time(10m), host END`,
		`CREATE SUBSCRIPTION s ON db.rp DESTINATIONS ALL 'udp://h:1', 'udp://h:2'`,
		`CREATE SUBSCRIPTION "my s" ON "my db"."my rp" DESTINATIONS ANY 'udp://h:1'`,
		`DROP SERIES FROM cpu WHERE host = 'a'`, `DROP SERIES WHERE host = 'a'`,
		`DELETE FROM cpu WHERE time < '2000-01-01'`, `DELETE WHERE host = 'a'`,
		`DROP MEASUREMENT "my m"`, `DROP DATABASE "my db"`, `DROP USER "my user"`, `DROP RETENTION POLICY "my rp" ON "my db"`,
		`DROP CONTINUOUS QUERY "my cq" ON "my db"`, `DROP SUBSCRIPTION "my s" ON "my db"."my rp"`,
		`DROP SHARD 3`, `KILL QUERY 4`, `KILL QUERY 4 ON "my host"`,
		`SELECT mean(value) FROM cpu GROUP BY time(90m) fill(-1)`,
		`SELECT mean(value) FROM cpu GROUP BY time(36h, 90m) fill(1000000000000000000000.0)`,
		`SELECT mean(value) FROM cpu GROUP BY time(1500ms), "my tag"`,
		`CREATE CONTINUOUS QUERY cq ON db RESAMPLE EVERY 90m FOR 36h BEGIN SELECT mean(value) INTO out FROM cpu GROUP BY time(90m) END`,
		`CREATE CONTINUOUS QUERY cq ON db RESAMPLE FOR 90m BEGIN SELECT mean(value) INTO out FROM cpu GROUP BY time(90m) END`,
		`CREATE DATABASE db WITH DURATION 90m SHARD DURATION 36h`,
		`CREATE RETENTION POLICY rp ON db DURATION 36h REPLICATION 1 SHARD DURATION 90m`,
		`ALTER RETENTION POLICY "my rp" ON "my db" DURATION 1500ms`,
		`SHOW MEASUREMENTS ON db.rp`,
		`SHOW MEASUREMENTS ON *.*`,
		`SHOW MEASUREMENTS ON db.*`,
		`SHOW MEASUREMENTS ON "my db"."my rp" WITH MEASUREMENT =~ /a b/`,
		`SHOW STATS FOR 'a b'`,
		`SHOW DIAGNOSTICS`,
		`SHOW FIELD KEYS FROM "my m", /x y/`,
		`SHOW SERIES FROM "my m" WHERE "my tag" = 'v'`,
		`SHOW TAG VALUES FROM "my m" WITH KEY = "my key"`,
		`SHOW TAG VALUES WITH KEY IN ("select", "my key")`,
		`SHOW TAG KEYS FROM "my m" WITH KEY = "my key"`,
		`SHOW TAG KEYS WITH KEY =~ /ho.*/ WHERE host = 'a'`,
		`SHOW TAG KEY CARDINALITY ON "my db" FROM "my m"`,
		`DROP SERIES FROM "my m", /x y/ WHERE "my tag" = 'v'`,
		`DELETE FROM "my m" WHERE "my tag" = 'v'`,
		`GRANT READ ON "my db" TO "my user"`,
		`REVOKE ALL ON "my db" FROM "my user"`,
		`SELECT value FROM cpu WHERE host = 'a' AND (time > now() - 1h OR time < now() - 2d)`,
		`SELECT sum("my field") / count("select") AS "from" FROM "my m"`,
		`SELECT value FROM cpu GROUP BY *, host`,
		`SELECT value FROM cpu GROUP BY /ho.*/`,
		`SELECT *::field, *::tag FROM cpu`,
		`SELECT value FROM cpu ORDER BY time ASC`,
		`SELECT value FROM cpu LIMIT 1`,
		`SELECT value FROM cpu SLIMIT 1`,
		`SELECT value FROM cpu OFFSET 1`,
		`SELECT value FROM cpu SOFFSET 1`,
		`SELECT value FROM cpu WHERE f > 9500000000000000000.0 OR f < -9500000000000000000.0 OR f = 0.1 OR f = 123456789012345678.0`,
		`CREATE RETENTION POLICY rp ON db DURATION 1d REPLICATION 1 SHARD DURATION 1500ms`,
		`CREATE DATABASE db WITH DURATION 1500ms REPLICATION 1 SHARD DURATION 2500ms NAME rp`,
		`ALTER RETENTION POLICY rp ON db SHARD DURATION 1500ms`,
		`CREATE CONTINUOUS QUERY cq ON db RESAMPLE EVERY 1500ms FOR 2500ms BEGIN SELECT mean(value) INTO out FROM cpu GROUP BY time(1500ms) END`,
		`SHOW TAG VALUES WITH KEY !~ /ho.*/`,
		`SHOW TAG KEYS WITH KEY != host`,
		`EXPLAIN SELECT value FROM cpu`, `EXPLAIN ANALYZE SELECT value FROM cpu`,
	}
	total, ok := 0, 0
	fails := map[string]int{}
	first := map[string]string{}
	fail := func(c, msg string) {
		fails[c]++
		if first[c] == "" {
			first[c] = msg
		}
	}
	for _, text := range corpus {
		total++
		q1, err := ParseQuery(text)
		if err != nil {
			fail("corpus-statement-rejected:"+strings.Fields(text)[0]+"-"+fmt.Sprint(len(text)), fmt.Sprintf("%q: %v", text, err))
			continue
		}
		printed := q1.String()
		kind := strings.ToLower(strings.TrimPrefix(fmt.Sprintf("%T", q1.Statements[0]), "*influxql."))
		// passwords are redacted on purpose: put a password back so that the rest of the statement is compared
		q2, err := ParseQuery(strings.Replace(printed, "[REDACTED]", "'p'", -1))
		if err != nil {
			fail("printed-text-rejected:"+kind, fmt.Sprintf("%q printed as %q: %v", text, printed, err))
			continue
		}
		if d := c02diff("query", reflect.ValueOf(q1), reflect.ValueOf(q2)); d != "" {
			shape := d
			if i := strings.Index(d, ": "); i >= 0 {
				shape = d[i+2:]
				field := d[:i]
				if j := strings.LastIndex(field, "."); j >= 0 {
					shape = field[j+1:] + " " + shape
				}
			}
			fail("reparse-differs:"+kind+":"+strings.Replace(shape, " ", "_", -1), fmt.Sprintf("%q printed as %q: %s", text, printed, d))
			continue
		}
		ok++
	}
	fmt.Printf("BOUNDED-COUNT: generated=%d accepted=%d\n", total, ok)
	for c, n := range fails {
		fmt.Printf("BOUNDED-FAIL: %s count=%d first=%s\n", c, n, first[c])
	}
}
