package influxql

// Bounded stand-in for the relational clause of C16 that no per-function contract
// states: replacing the whitespace between two tokens by other whitespace, or
// inserting a comment flanked by whitespace there, never changes the AST.
// Bound: the statements listed below (one or more per statement kind and per
// place where the parser looks at raw runes or raw tokens) x every gap that
// contains whitespace x 12 replacements (incl. a 40-space run and a comment containing a comment opener), and every ordered pair of corpus statements in one query. Labelled bounded; never counted as proved.

import (
	"fmt"
	"reflect"
	"strings"
	"testing"
	"regexp"
	"time"
)

func c16gaps(s string) [][2]int {
	// maximal runs of spaces outside quotes and regex literals
	var out [][2]int
	inS, inD := false, false
	for i := 0; i < len(s); i++ {
		c := s[i]
		switch {
		case inS:
			if c == '\\' {
				i++
			} else if c == '\'' {
				inS = false
			}
		case inD:
			if c == '\\' {
				i++
			} else if c == '"' {
				inD = false
			}
		case c == '\'':
			inS = true
		case c == '"':
			inD = true
		case c == ' ':
			j := i
			for j < len(s) && s[j] == ' ' {
				j++
			}
			out = append(out, [2]int{i, j})
			i = j - 1
		}
	}
	return out
}

// structural comparison of two ASTs (compiled regexes by text, times as instants, memo fields skipped)
func c16diff(path string, a, b reflect.Value) string {
	if a.IsValid() != b.IsValid() {
		return path + ": one side missing"
	}
	if !a.IsValid() {
		return ""
	}
	if a.Type() != b.Type() {
		return fmt.Sprintf("%s: %s vs %s", path, a.Type(), b.Type())
	}
	switch a.Kind() {
	case reflect.Ptr:
		if a.IsNil() || b.IsNil() {
			if a.IsNil() != b.IsNil() {
				return path + ": nil vs non-nil"
			}
			return ""
		}
		if ra, ok := a.Interface().(*regexp.Regexp); ok {
			if rb := b.Interface().(*regexp.Regexp); ra.String() != rb.String() {
				return fmt.Sprintf("%s: regex %q vs %q", path, ra.String(), rb.String())
			}
			return ""
		}
		if _, ok := a.Interface().(*time.Location); ok {
			if a.Interface().(*time.Location).String() != b.Interface().(*time.Location).String() {
				return path + ": location"
			}
			return ""
		}
		return c16diff(path, a.Elem(), b.Elem())
	case reflect.Interface:
		if a.IsNil() || b.IsNil() {
			if a.IsNil() != b.IsNil() {
				return path + ": nil vs non-nil"
			}
			return ""
		}
		return c16diff(path, a.Elem(), b.Elem())
	case reflect.Struct:
		if ta, ok := a.Interface().(time.Time); ok {
			if !ta.Equal(b.Interface().(time.Time)) {
				return path + ": time"
			}
			return ""
		}
		for i := 0; i < a.NumField(); i++ {
			name := a.Type().Field(i).Name
			if name == "groupByInterval" {
				continue
			}
			if d := c16diff(path+"."+name, a.Field(i), b.Field(i)); d != "" {
				return d
			}
		}
		return ""
	case reflect.Slice:
		if a.Len() != b.Len() {
			return fmt.Sprintf("%s: length %d vs %d", path, a.Len(), b.Len())
		}
		for i := 0; i < a.Len(); i++ {
			if d := c16diff(fmt.Sprintf("%s[%d]", path, i), a.Index(i), b.Index(i)); d != "" {
				return d
			}
		}
		return ""
	case reflect.Map:
		return ""
	case reflect.Func, reflect.Chan:
		return ""
	default:
		if a.CanInterface() && b.CanInterface() {
			if !reflect.DeepEqual(a.Interface(), b.Interface()) {
				return fmt.Sprintf("%s: %v vs %v", path, a.Interface(), b.Interface())
			}
			return ""
		}
		if fmt.Sprint(a) != fmt.Sprint(b) {
			return fmt.Sprintf("%s: %v vs %v", path, a, b)
		}
		return ""
	}
}

func TestZZBoundedC16(t *testing.T) {
	fmt.Println("BOUNDED-BOUND: 63 statements covering every statement family and every raw-rune / raw-token site x every whitespace gap x {tab, LF, CR, CRLF, two spaces, block comment, line comment, 40 spaces, comment containing a comment opener, line comment ended by a lone CR, line comment without a space after the dashes, comment whose text starts with a slash}; one query of 300 statements; every ordered pair of statements in one query, each compared with its parse alone")
	corpus := []string{
		`SELECT mean(value) FROM cpu WHERE host = 'a' AND time > now() - 1h GROUP BY time(5m), host fill(none) ORDER BY time DESC LIMIT 5 OFFSET 2 SLIMIT 3 SOFFSET 1 tz('UTC')`,
		`SELECT value INTO db1.rp1.out FROM db0.rp0.cpu WHERE value > 1.5`,
		`SELECT count(distinct(value)) FROM cpu`,
		`SELECT DISTINCT value FROM cpu`,
		`SELECT * FROM /cpu.*/ WHERE host =~ /a.*/ AND region !~ /b/`,
		`SELECT value FROM (SELECT value FROM cpu WHERE value > 0) WHERE value < 10`,
		`SELECT value::float , host::tag FROM cpu`,
		`SELECT -value , - 1 , 2 * -x FROM cpu`,
		`SELECT top(value, host, 3) FROM cpu`,
		`SELECT value FROM "db"."rp"."m" , "db"..m2`,
		`SELECT value FROM cpu WHERE time >= '2000-01-01T00:00:00Z' AND time < '2000-01-02'`,
		`SHOW DATABASES`,
		`SHOW MEASUREMENTS ON db WITH MEASUREMENT =~ /cpu/ WHERE host = 'a' LIMIT 3 OFFSET 1`,
		`SHOW MEASUREMENTS WITH MEASUREMENT = cpu`,
		`SHOW SERIES ON db FROM cpu WHERE host = 'a' LIMIT 1`,
		`SHOW TAG KEYS ON db FROM cpu WHERE host = 'a'`,
		`SHOW TAG VALUES ON db FROM cpu WITH KEY IN ( host , region ) WHERE host = 'a'`,
		`SHOW TAG VALUES WITH KEY =~ /ho.*/`,
		`SHOW TAG VALUES WITH KEY IN ( a , b , c )`,
		`SHOW FIELD KEYS ON db FROM cpu`,
		`SHOW RETENTION POLICIES ON db`,
		`SHOW SERIES CARDINALITY ON db`,
		`SHOW SERIES EXACT CARDINALITY ON db FROM cpu`,
		`SHOW GRANTS FOR u`,
		`SHOW SHARDS`, `SHOW STATS`, `SHOW DIAGNOSTICS`, `SHOW STATS FOR 'runtime'`, `SHOW USERS`, `SHOW QUERIES`, `SHOW SUBSCRIPTIONS`, `SHOW CONTINUOUS QUERIES`, `SHOW SHARD GROUPS`,
		`CREATE DATABASE db WITH DURATION 1h REPLICATION 1 SHARD DURATION 30m NAME rp`,
		`CREATE RETENTION POLICY rp ON db DURATION 1h REPLICATION 1 DEFAULT`,
		`ALTER RETENTION POLICY rp ON db DURATION 2h REPLICATION 2 SHARD DURATION 1h DEFAULT`,
		`CREATE USER u WITH PASSWORD 'p' WITH ALL PRIVILEGES`,
		`SET PASSWORD FOR u = 'p'`,
		`GRANT READ ON db TO u`,
		`GRANT ALL PRIVILEGES TO u`,
		`REVOKE WRITE ON db FROM u`,
		`CREATE CONTINUOUS QUERY cq ON db RESAMPLE EVERY 1m FOR 2m BEGIN SELECT mean(value) INTO out FROM cpu GROUP BY time(1m) END`,
		`CREATE SUBSCRIPTION s ON db.rp DESTINATIONS ALL 'udp://h:1' , 'udp://h:2'`,
		`DROP SERIES FROM cpu WHERE host = 'a'`,
		`DELETE FROM cpu WHERE time < '2000-01-01'`,
		`DROP SHARD 3`,
		`DROP MEASUREMENT cpu`, `DROP DATABASE db`, `DROP USER u`, `DROP RETENTION POLICY rp ON db`,
		`DROP CONTINUOUS QUERY cq ON db`, `DROP SUBSCRIPTION s ON db.rp`, `REVOKE ALL PRIVILEGES FROM u`,
		`SHOW CONTINUOUS QUERIES`, `SHOW SUBSCRIPTIONS`, `SHOW SHARD GROUPS`, `SHOW MEASUREMENT CARDINALITY`,
		`SHOW TAG KEY CARDINALITY ON db`, `SHOW FIELD KEY CARDINALITY`, `SHOW TAG VALUES CARDINALITY WITH KEY = host`,
		`KILL QUERY 4 ON "host"`,
		`EXPLAIN ANALYZE SELECT value FROM cpu`,
		`SELECT value FROM cpu ; SHOW DATABASES ; ; DROP SHARD 1 ;`,
	}
	repl := map[string]string{"tab": "\t", "lf": "\n", "cr": "\r", "crlf": "\r\n", "two-spaces": "  ", "block-comment": " /* c */ ", "line-comment": " -- c\n",
		"long-spaces": strings.Repeat(" ", 40), "comment-with-opener": " /* a /* b */ ",
		"line-comment-cr": " -- c\r", "line-comment-nospace": " --c\n", "comment-slash-first": " /*/ c */ "}
	total, accepted := 0, 0
	fails := map[string]int{}
	first := map[string]string{}
	for _, base := range corpus {
		q0, err0 := ParseQuery(base)
		if err0 != nil {
			fails["corpus-statement-rejected"]++
			if first["corpus-statement-rejected"] == "" {
				first["corpus-statement-rejected"] = fmt.Sprintf("%q: %v", base, err0)
			}
			continue
		}
		// every statement followed by a second one: the statement parser must stop in front of the separator
		if !strings.Contains(base, ";") {
			total++
			q2, err2 := ParseQuery(base + "; SHOW DATABASES")
			switch {
			case err2 != nil:
				fails["separator:following-statement-rejected:"+strings.Fields(base)[0]]++
				if first["separator:following-statement-rejected:"+strings.Fields(base)[0]] == "" {
					first["separator:following-statement-rejected:"+strings.Fields(base)[0]] = fmt.Sprintf("%q: %v", base+"; SHOW DATABASES", err2)
				}
			case len(q2.Statements) != 2 || !reflect.DeepEqual(q0.Statements[0], q2.Statements[0]) && q0.Statements[0].String() != q2.Statements[0].String():
				fails["separator:first-statement-differs:"+strings.Fields(base)[0]]++
				if first["separator:first-statement-differs:"+strings.Fields(base)[0]] == "" {
					first["separator:first-statement-differs:"+strings.Fields(base)[0]] = fmt.Sprintf("%q", base+"; SHOW DATABASES")
				}
			default:
				accepted++
			}
		}
		for _, g := range c16gaps(base) {
			for name, r := range repl {
				if name == "comment-with-opener" || name == "comment-slash-first" || name == "line-comment-cr" || name == "line-comment-nospace" {
					// only where a plain comment is accepted (the raw-rune look-ahead sites are finding F-C16-1)
					if _, err := ParseQuery(base[:g[0]] + repl["block-comment"] + base[g[1]:]); err != nil {
						continue
					}
				}
				text := base[:g[0]] + r + base[g[1]:]
				total++
				q1, err1 := ParseQuery(text)
				class := ""
				switch {
				case err1 != nil:
					class = name + "-rejected"
				case !reflect.DeepEqual(q0, q1) && q0.String() != q1.String():
					class = name + "-changes-ast"
				default:
					accepted++
					continue
				}
				kind := "whitespace"
				if strings.Contains(name, "comment") {
					kind = "comment"
				}
				prevs := strings.Fields(base[:g[0]])
				prev := strings.ToUpper(prevs[len(prevs)-1])
				switch {
				case prev == "SELECT" || prev == "FROM" || prev == "BY" || prev == "=~" || prev == "!~" || prev == "=" || prev == "(SELECT":
				case strings.HasSuffix(prev, ","):
					prev = "COMMA"
				default:
					prev = "NAME"
				}
				key := kind + ":" + class + ":after-" + prev
				fails[key]++
				if first[key] == "" {
					first[key] = fmt.Sprintf("%q", text)
				}
			}
		}
	}
	// every ordered pair of corpus statements in one query: each is parsed exactly as it is alone
	var singles []string
	for _, base := range corpus {
		if !strings.Contains(base, ";") {
			if _, err := ParseQuery(base); err == nil {
				singles = append(singles, base)
			}
		}
	}
	for _, a := range singles {
		qa, _ := ParseQuery(a)
		for _, b := range singles {
			qb, _ := ParseQuery(b)
			total++
			q, err := ParseQuery(a + " ; " + b)
			key := ""
			switch {
			case err != nil:
				key = "pair:rejected:" + strings.Fields(a)[0]
			case len(q.Statements) != 2:
				key = "pair:statement-count:" + strings.Fields(a)[0]
			case c16diff("first", reflect.ValueOf(q.Statements[0]), reflect.ValueOf(qa.Statements[0])) != "":
				key = "pair:first-differs-from-alone:" + strings.Fields(a)[0]
			case c16diff("second", reflect.ValueOf(q.Statements[1]), reflect.ValueOf(qb.Statements[0])) != "":
				key = "pair:second-differs-from-alone:" + strings.Fields(b)[0]
			default:
				accepted++
				continue
			}
			fails[key]++
			if first[key] == "" {
				first[key] = fmt.Sprintf("%q", a+" ; "+b)
			}
		}
	}
	// a long query: parser state carried from statement to statement must not build up
	{
		one := "SELECT mean(value) FROM cpu WHERE time > now() - 5m AND host = f() GROUP BY time(10s)"
		alone, _ := ParseQuery(one)
		total++
		long, err := ParseQuery(strings.Repeat(one+" ; ", 300))
		switch {
		case err != nil:
			fails["long-query:rejected"]++
			first["long-query:rejected"] = err.Error()
		case len(long.Statements) != 300:
			fails["long-query:statement-count"]++
			first["long-query:statement-count"] = fmt.Sprint(len(long.Statements))
		default:
			good := true
			for i, st := range long.Statements {
				if c16diff("stmt", reflect.ValueOf(st), reflect.ValueOf(alone.Statements[0])) != "" {
					good = false
					fails["long-query:statement-differs-from-alone"]++
					first["long-query:statement-differs-from-alone"] = fmt.Sprintf("statement %d: %s", i, st.String())
					break
				}
			}
			if good {
				accepted++
			}
		}
	}
	fmt.Printf("BOUNDED-COUNT: generated=%d accepted=%d\n", total, accepted)
	for c, n := range fails {
		fmt.Printf("BOUNDED-FAIL: %s count=%d first=%s\n", c, n, first[c])
	}
}
