package influxql

// Bounded stand-in for the relational clause of C16 that no per-function contract
// states: replacing the whitespace between two tokens by other whitespace, or
// inserting a comment flanked by whitespace there, never changes the AST.
// Bound: the statements listed below (one or more per statement kind and per
// place where the parser looks at raw runes or raw tokens) x every gap that
// contains whitespace x 7 replacements. Labelled bounded; never counted as proved.

import (
	"fmt"
	"reflect"
	"strings"
	"testing"
)

func c16gaps(s string) [][2]int {
	// maximal runs of spaces outside quotes and regex literals
	var out [][2]int
	inS, inD := false, false
	for i := 0; i < len(s); i++ {
		c := s[i]
		switch {
		case inS:
			if c == '\\' {
				i++
			} else if c == '\'' {
				inS = false
			}
		case inD:
			if c == '\\' {
				i++
			} else if c == '"' {
				inD = false
			}
		case c == '\'':
			inS = true
		case c == '"':
			inD = true
		case c == ' ':
			j := i
			for j < len(s) && s[j] == ' ' {
				j++
			}
			out = append(out, [2]int{i, j})
			i = j - 1
		}
	}
	return out
}

func TestZZBoundedC16(t *testing.T) {
	fmt.Println("BOUNDED-BOUND: 48 statements covering every statement family and every raw-rune / raw-token site x every whitespace gap x {tab, LF, CR, CRLF, two spaces, block comment, line comment}")
	corpus := []string{
		`SELECT mean(value) FROM cpu WHERE host = 'a' AND time > now() - 1h GROUP BY time(5m), host fill(none) ORDER BY time DESC LIMIT 5 OFFSET 2 SLIMIT 3 SOFFSET 1 tz('UTC')`,
		`SELECT value INTO db1.rp1.out FROM db0.rp0.cpu WHERE value > 1.5`,
		`SELECT count(distinct(value)) FROM cpu`,
		`SELECT DISTINCT value FROM cpu`,
		`SELECT * FROM /cpu.*/ WHERE host =~ /a.*/ AND region !~ /b/`,
		`SELECT value FROM (SELECT value FROM cpu WHERE value > 0) WHERE value < 10`,
		`SELECT value::float , host::tag FROM cpu`,
		`SELECT -value , - 1 , 2 * -x FROM cpu`,
		`SELECT top(value, host, 3) FROM cpu`,
		`SELECT value FROM "db"."rp"."m" , "db"..m2`,
		`SELECT value FROM cpu WHERE time >= '2000-01-01T00:00:00Z' AND time < '2000-01-02'`,
		`SHOW DATABASES`,
		`SHOW MEASUREMENTS ON db WITH MEASUREMENT =~ /cpu/ WHERE host = 'a' LIMIT 3 OFFSET 1`,
		`SHOW MEASUREMENTS WITH MEASUREMENT = cpu`,
		`SHOW SERIES ON db FROM cpu WHERE host = 'a' LIMIT 1`,
		`SHOW TAG KEYS ON db FROM cpu WHERE host = 'a'`,
		`SHOW TAG VALUES ON db FROM cpu WITH KEY IN ( host , region ) WHERE host = 'a'`,
		`SHOW TAG VALUES WITH KEY =~ /ho.*/`,
		`SHOW FIELD KEYS ON db FROM cpu`,
		`SHOW RETENTION POLICIES ON db`,
		`SHOW SERIES CARDINALITY ON db`,
		`SHOW SERIES EXACT CARDINALITY ON db FROM cpu`,
		`SHOW GRANTS FOR u`,
		`SHOW SHARDS`, `SHOW STATS`, `SHOW DIAGNOSTICS`, `SHOW STATS FOR 'runtime'`, `SHOW USERS`, `SHOW QUERIES`, `SHOW SUBSCRIPTIONS`, `SHOW CONTINUOUS QUERIES`, `SHOW SHARD GROUPS`,
		`CREATE DATABASE db WITH DURATION 1h REPLICATION 1 SHARD DURATION 30m NAME rp`,
		`CREATE RETENTION POLICY rp ON db DURATION 1h REPLICATION 1 DEFAULT`,
		`ALTER RETENTION POLICY rp ON db DURATION 2h REPLICATION 2 SHARD DURATION 1h DEFAULT`,
		`CREATE USER u WITH PASSWORD 'p' WITH ALL PRIVILEGES`,
		`SET PASSWORD FOR u = 'p'`,
		`GRANT READ ON db TO u`,
		`GRANT ALL PRIVILEGES TO u`,
		`REVOKE WRITE ON db FROM u`,
		`CREATE CONTINUOUS QUERY cq ON db RESAMPLE EVERY 1m FOR 2m BEGIN SELECT mean(value) INTO out FROM cpu GROUP BY time(1m) END`,
		`CREATE SUBSCRIPTION s ON db.rp DESTINATIONS ALL 'udp://h:1' , 'udp://h:2'`,
		`DROP SERIES FROM cpu WHERE host = 'a'`,
		`DELETE FROM cpu WHERE time < '2000-01-01'`,
		`DROP SHARD 3`,
		`KILL QUERY 4 ON "host"`,
		`EXPLAIN ANALYZE SELECT value FROM cpu`,
		`SELECT value FROM cpu ; SHOW DATABASES ; ; DROP SHARD 1 ;`,
	}
	repl := map[string]string{"tab": "\t", "lf": "\n", "cr": "\r", "crlf": "\r\n", "two-spaces": "  ", "block-comment": " /* c */ ", "line-comment": " -- c\n"}
	total, accepted := 0, 0
	fails := map[string]int{}
	first := map[string]string{}
	for _, base := range corpus {
		q0, err0 := ParseQuery(base)
		if err0 != nil {
			fails["corpus-statement-rejected"]++
			if first["corpus-statement-rejected"] == "" {
				first["corpus-statement-rejected"] = fmt.Sprintf("%q: %v", base, err0)
			}
			continue
		}
		// every statement followed by a second one: the statement parser must stop in front of the separator
		if !strings.Contains(base, ";") {
			total++
			q2, err2 := ParseQuery(base + "; SHOW DATABASES")
			switch {
			case err2 != nil:
				fails["separator:following-statement-rejected:"+strings.Fields(base)[0]]++
				if first["separator:following-statement-rejected:"+strings.Fields(base)[0]] == "" {
					first["separator:following-statement-rejected:"+strings.Fields(base)[0]] = fmt.Sprintf("%q: %v", base+"; SHOW DATABASES", err2)
				}
			case len(q2.Statements) != 2 || !reflect.DeepEqual(q0.Statements[0], q2.Statements[0]) && q0.Statements[0].String() != q2.Statements[0].String():
				fails["separator:first-statement-differs:"+strings.Fields(base)[0]]++
				if first["separator:first-statement-differs:"+strings.Fields(base)[0]] == "" {
					first["separator:first-statement-differs:"+strings.Fields(base)[0]] = fmt.Sprintf("%q", base+"; SHOW DATABASES")
				}
			default:
				accepted++
			}
		}
		for _, g := range c16gaps(base) {
			for name, r := range repl {
				text := base[:g[0]] + r + base[g[1]:]
				total++
				q1, err1 := ParseQuery(text)
				class := ""
				switch {
				case err1 != nil:
					class = name + "-rejected"
				case !reflect.DeepEqual(q0, q1) && q0.String() != q1.String():
					class = name + "-changes-ast"
				default:
					accepted++
					continue
				}
				kind := "whitespace"
				if strings.Contains(name, "comment") {
					kind = "comment"
				}
				prevs := strings.Fields(base[:g[0]])
				prev := strings.ToUpper(prevs[len(prevs)-1])
				switch {
				case prev == "SELECT" || prev == "FROM" || prev == "BY" || prev == "=~" || prev == "!~" || prev == "=" || prev == "(SELECT":
				case strings.HasSuffix(prev, ","):
					prev = "COMMA"
				default:
					prev = "NAME"
				}
				key := kind + ":" + class + ":after-" + prev
				fails[key]++
				if first[key] == "" {
					first[key] = fmt.Sprintf("%q", text)
				}
			}
		}
	}
	fmt.Printf("BOUNDED-COUNT: generated=%d accepted=%d\n", total, accepted)
	for c, n := range fails {
		fmt.Printf("BOUNDED-FAIL: %s count=%d first=%s\n", c, n, first[c])
	}
}
