package influxql

// Bounded stand-in for the part of C15 that no contract reaches: whether the two
// redaction patterns cover the password grammar the parser accepts.
// Bound: passwords of 1..3 characters over {x, space, ', ", \, =} containing the
// marker letter x; user names u and "u v"; five layouts around '=' / after
// PASSWORD; each statement alone and followed by a second statement.
// Oracle: the parser accepts the text as a password statement => the marker
// letter must not survive in Sanitize(text).

import (
	"fmt"
	"strings"
	"testing"
)

func TestZZBoundedC15(t *testing.T) {
	fmt.Println("BOUNDED-BOUND: passwords of 1..3 characters over {x, space, single quote, double quote, backslash, =, ;} containing x; users u and \"u v\"; 5 layouts around = / after PASSWORD; alone and followed by ; SHOW DATABASES; plus two password statements in one text")
	alphabet := []string{"x", " ", "'", "\"", "\\", "=", ";"}
	var pws []string
	var gen func(cur string, n int)
	gen = func(cur string, n int) {
		if n == 0 {
			return
		}
		for _, c := range alphabet {
			s := cur + c
			if strings.Contains(s, "x") {
				pws = append(pws, s)
			}
			gen(s, n-1)
		}
	}
	gen("", 3)
	gaps := []string{" ", "", "  ", "\n", " /* c */ ", " /* c\n d */ "}
	users := []string{"u", `"u v"`, `"a\"=b"`}
	total, valid := 0, 0
	fails := map[string]int{}
	first := map[string]string{}
	for _, pw := range pws {
		q := QuoteString(pw)
		for _, u := range users {
			for _, g1 := range gaps {
				for _, g2 := range gaps {
					texts := []string{
						"CREATE USER " + u + " WITH PASSWORD" + g2 + q,
						"SET PASSWORD FOR " + u + g1 + "=" + g2 + q,
					}
					if g1 == " " && (g2 == " " || g2 == "") {
						// keyword case does not matter to the parser
						texts = append(texts, "Create User "+u+" With Password"+g2+q, "set password for "+u+g1+"="+g2+q)
					}
					for _, base := range texts {
						for _, text := range []string{base, base + "; SHOW DATABASES"} {
							total++
							query, err := ParseQuery(text)
							if err != nil {
								continue
							}
							var got string
							switch st := query.Statements[0].(type) {
							case *CreateUserStatement:
								got = st.Password
							case *SetPasswordUserStatement:
								got = st.Password
							default:
								continue
							}
							if got != pw {
								continue
							}
							valid++
							out := Sanitize(text)
							if strings.Contains(out, "x") {
								class := "other"
								switch {
								case strings.Contains(g2, "/*") || strings.Contains(g1, "/*"):
									class = "comment-in-gap"
								case strings.ContainsAny(pw, " "):
									class = "password-contains-whitespace"
								case g2 == "" && strings.HasPrefix(base, "SET"):
									class = "no-space-after-equals"
								case g2 == "" && strings.HasPrefix(base, "CREATE"):
									class = "no-space-after-PASSWORD"
								case strings.ContainsAny(pw, "\"'\\"):
									class = "quote-or-backslash-in-password"
								case strings.Contains(pw, ";"):
									class = "semicolon-in-password"
								}
								fails[class]++
								if _, ok := first[class]; !ok {
									first[class] = fmt.Sprintf("%q -> %q", text, out)
								}
							}
						}
					}
				}
			}
		}
	}
	// two password statements in one text, in both orders (offsets of the second pass
	// must be computed on the text the first pass produced)
	for _, pw1 := range []string{"x", "xxxxxxxxxxxx"} {
		for _, pw2 := range []string{"x", "xxxxxxxxxxxxxxx"} {
			for _, text := range []string{
				"SET PASSWORD FOR u = " + QuoteString(pw1) + " ; CREATE USER v WITH PASSWORD " + QuoteString(pw2),
				"CREATE USER v WITH PASSWORD " + QuoteString(pw2) + " ; SET PASSWORD FOR u = " + QuoteString(pw1),
				"SET PASSWORD FOR u = " + QuoteString(pw1) + " ; SET PASSWORD FOR w = " + QuoteString(pw2),
			} {
				total++
				if _, err := ParseQuery(text); err != nil {
					continue
				}
				valid++
				if out := Sanitize(text); strings.Contains(out, "x") {
					fails["two-password-statements"]++
					if _, ok := first["two-password-statements"]; !ok {
						first["two-password-statements"] = fmt.Sprintf("%q -> %q", text, out)
					}
				}
			}
		}
	}
	// white space and comments between the keywords themselves, and user names that contain the
	// keywords of the other clause
	kgaps := []string{" ", "\n", "\t ", "/**/", " /* c */ ", " -- c\n"}
	knames := []string{"u", `"with password 'a"`, `"password for b = 'c'"`, `"x = 'y'"`}
	for _, pw := range []string{"x", "x x", "a'x", "x;"} {
		q := QuoteString(pw)
		for _, k1 := range kgaps {
			for _, k2 := range kgaps {
				for _, u := range knames {
					for _, text := range []string{
						"CREATE" + k1 + "USER " + u + " WITH" + k2 + "PASSWORD " + q,
						"CREATE USER " + u + k1 + "WITH" + k2 + "PASSWORD " + q + " WITH ALL PRIVILEGES",
						"SET" + k1 + "PASSWORD" + k2 + "FOR " + u + " = " + q,
						"SET PASSWORD" + k1 + "FOR" + k2 + u + " = " + q,
					} {
						total++
						query, err := ParseQuery(text)
						if err != nil {
							continue
						}
						var got string
						switch st := query.Statements[0].(type) {
						case *CreateUserStatement:
							got = st.Password
						case *SetPasswordUserStatement:
							got = st.Password
						}
						if got != pw {
							continue
						}
						valid++
						// the password literal must be gone; the rest of the text must be unchanged
						out := Sanitize(text)
						want := strings.Replace(text, q, "[REDACTED]", 1)
						if u != "u" && strings.Contains(u, "x") {
							want = text[:strings.LastIndex(text, q)] + "[REDACTED]" + text[strings.LastIndex(text, q)+len(q):]
						}
						if out != want {
							class := "keyword-gap"
							if u != "u" {
								class = "keywords-inside-user-name"
							} else if strings.Contains(k1+k2, "/*") || strings.Contains(k1+k2, "--") {
								class = "comment-between-keywords"
							}
							fails[class]++
							if _, ok := first[class]; !ok {
								first[class] = fmt.Sprintf("%q -> %q", text, out)
							}
						}
					}
				}
			}
		}
	}
	fmt.Printf("BOUNDED-COUNT: generated=%d accepted=%d\n", total, valid)
	for c, n := range fails {
		fmt.Printf("BOUNDED-FAIL: %s count=%d first=%s\n", c, n, first[c])
	}
}
