package influxql

// Bounded stand-in for the clause of C03 that no contract reaches here: "printing
// the resulting tree and parsing it again gives the same grouping", and an
// end-to-end comparison of the grouping with an independent precedence-climbing
// reference. Bound: every chain of 1..3 binary operators over all 18 operator
// spellings; operands drawn in rotation from {a, -b, (c), 1} (regex operators get
// a regex right operand); 18 + 18^2 + 18^3 = 6174 chains x 2 operand rotations;
// plus nested parenthesised operands ((a o b) o (c o d)) on either side of a third operator.
// Labelled bounded; never counted as proved.

import (
	"fmt"
	"strings"
	"testing"
)

type c03tok struct {
	op   string
	prec int
}

func c03shape(e Expr) string {
	switch e := e.(type) {
	case *BinaryExpr:
		return "[" + c03shape(e.LHS) + " " + e.Op.String() + " " + c03shape(e.RHS) + "]"
	case *ParenExpr:
		// explicit parentheses: transparent for grouping, but mark that the inner tree is closed
		return c03shape(e.Expr)
	default:
		return e.String()
	}
}

// reference: precedence climbing, all levels left-associative
func c03ref(atoms []string, ops []c03tok) string {
	pos := 0
	var climb func(min int) string
	climb = func(min int) string {
		lhs := atoms[pos]
		for pos < len(ops) && ops[pos].prec >= min {
			op := ops[pos]
			pos++
			save := pos
			_ = save
			rhs := func() string {
				// right operand: everything binding tighter than op
				l := atoms[pos]
				for pos < len(ops) && ops[pos].prec > op.prec {
					o2 := ops[pos]
					pos++
					r2 := func() string {
						l2 := atoms[pos]
						for pos < len(ops) && ops[pos].prec > o2.prec {
							o3 := ops[pos]
							pos++
							l2 = "[" + l2 + " " + o3.op + " " + atoms[pos] + "]"
						}
						return l2
					}()
					l = "[" + l + " " + o2.op + " " + r2 + "]"
				}
				return l
			}()
			lhs = "[" + lhs + " " + op.op + " " + rhs + "]"
		}
		return lhs
	}
	return climb(0)
}

func TestZZBoundedC03(t *testing.T) {
	fmt.Println("BOUNDED-BOUND: all chains of 1..3 binary operators over the 18 operator spellings, operands rotated over {a, -b, (c), 1}, regex operators with a regex right operand; print/re-parse grouping and comparison with a precedence-climbing reference; plus 3 x 17^3 texts with nested parenthesised operands on either side (print/re-parse grouping only)")
	ops := []c03tok{{"*", 5}, {"/", 5}, {"%", 5}, {"&", 5}, {"+", 4}, {"-", 4}, {"|", 4}, {"^", 4},
		{"=", 3}, {"!=", 3}, {"<>", 3}, {"<", 3}, {"<=", 3}, {">", 3}, {">=", 3}, {"=~", 3}, {"!~", 3}, {"AND", 2}, {"OR", 1}}
	// "<>" is a second spelling of "!=": 19 entries, 18 distinct operators
	atomsA := []string{"a", "-b", "(c)", "1"}
	// shapes of the atoms as the parser builds them
	atomShape := map[string]string{"a": "a", "-b": "[-1 * b]", "(c)": "c", "1": "1", "/x/": "/x/"}
	total, accepted := 0, 0
	fails := map[string]int{}
	first := map[string]string{}
	var chain func(k int, cur []c03tok)
	check := func(cur []c03tok, rot int) {
		var sb strings.Builder
		atoms := []string{}
		a0 := atomsA[rot%4]
		sb.WriteString(a0)
		atoms = append(atoms, atomShape[a0])
		for i, o := range cur {
			at := atomsA[(rot+i+1)%4]
			if o.op == "=~" || o.op == "!~" {
				at = "/x/"
			}
			sb.WriteString(" " + o.op + " " + at)
			atoms = append(atoms, atomShape[at])
		}
		text := sb.String()
		total++
		e1, err := ParseExpr(text)
		if err != nil {
			return
		}
		accepted++
		s1 := c03shape(e1)
		norm := make([]c03tok, len(cur))
		for i, o := range cur {
			norm[i] = o
			if o.op == "<>" {
				norm[i].op = "!="
			}
		}
		if want := c03ref(atoms, norm); s1 != want {
			fails["grouping-differs-from-reference"]++
			if first["grouping-differs-from-reference"] == "" {
				first["grouping-differs-from-reference"] = fmt.Sprintf("%q parsed as %s, reference %s", text, s1, want)
			}
		}
		p := e1.String()
		e2, err := ParseExpr(p)
		if err != nil {
			fails["printed-text-rejected"]++
			if first["printed-text-rejected"] == "" {
				first["printed-text-rejected"] = fmt.Sprintf("%q printed as %q: %v", text, p, err)
			}
			return
		}
		if s2 := c03shape(e2); s2 != s1 {
			fails["regroup-on-reprint"]++
			if first["regroup-on-reprint"] == "" {
				first["regroup-on-reprint"] = fmt.Sprintf("%q groups as %s, printed as %q which groups as %s", text, s1, p, s2)
			}
		}
	}
	chain = func(k int, cur []c03tok) {
		if len(cur) > 0 {
			check(cur, 0)
			check(cur, 1)
		}
		if k == 0 {
			return
		}
		for _, o := range ops {
			chain(k-1, append(append([]c03tok{}, cur...), o))
		}
	}
	chain(3, nil)
	// nested parentheses: an operand that is itself a parenthesised operation over parenthesised
	// operands, on either side (the printed text starts with "(" and ends with ")" without being
	// enclosed by one pair)
	reprint := func(text string) {
		total++
		e1, err := ParseExpr(text)
		if err != nil {
			return
		}
		accepted++
		p := e1.String()
		e2, err := ParseExpr(p)
		if err != nil {
			fails["printed-text-rejected"]++
			if first["printed-text-rejected"] == "" {
				first["printed-text-rejected"] = fmt.Sprintf("%q printed as %q: %v", text, p, err)
			}
			return
		}
		if s1, s2 := c03shape(e1), c03shape(e2); s2 != s1 {
			fails["regroup-on-reprint"]++
			if first["regroup-on-reprint"] == "" {
				first["regroup-on-reprint"] = fmt.Sprintf("%q groups as %s, printed as %q which groups as %s", text, s1, p, s2)
			}
		}
	}
	for _, o1 := range ops {
		for _, o2 := range ops {
			for _, o3 := range ops {
				if o1.op == "=~" || o1.op == "!~" || o2.op == "=~" || o2.op == "!~" || o3.op == "=~" || o3.op == "!~" {
					continue
				}
				inner := "((a " + o2.op + " b) " + o3.op + " (c " + o2.op + " d))"
				reprint("x " + o1.op + " " + inner)
				reprint(inner + " " + o1.op + " x")
				reprint("((a) " + o3.op + " (b)) " + o1.op + " ((c) " + o2.op + " (d))")
			}
		}
	}
	fmt.Printf("BOUNDED-COUNT: generated=%d accepted=%d\n", total, accepted)
	for c, n := range fails {
		fmt.Printf("BOUNDED-FAIL: %s count=%d first=%s\n", c, n, first[c])
	}
}
