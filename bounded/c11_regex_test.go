package influxql

// Bounded stand-in for the clause of C11 no contract reaches here: after
// RewriteRegexConditions a condition accepts exactly the same string values as
// before. Bound: regular expressions ^ATOMS$ with 1..3 atoms drawn from
// {a, b, ab, [ab], [a-c], (a|b), (ab|c), a?, a*, ., \n-free literals}, with the anchors
// present / absent / doubled and the flag prefixes "", (?i), (?m), (?s), (?U);
// both operators =~ and !~; candidate values: every string of length 0..3 over
// {a, b, c, A, newline, x}. Labelled bounded; never counted as proved.

import (
	"fmt"
	"testing"
)

func TestZZBoundedC11(t *testing.T) {
	fmt.Println("BOUNDED-BOUND: regexes FLAG ^? ATOM{1,3} $? over 16 atoms (one of them a character class that matches nothing, one an open-ended repetition) and 5 flag prefixes, operators =~ and !~, candidate values of length 0..3 over {a,b,c,A,newline,x,e-acute}; plus 392 statements with two regex conditions (7 x 7 expressions incl. group-scoped flags, both operators, AND / OR) over 10 x 10 values")
	atoms := []string{"a", "b", "ab", "[ab]", "[a-c]", "(a|b)", "[ac]", "(ab|c)", "a?", "a*", ".", "(a$|b)", "b{2}", "[a\u00e9]", `[^\x00-\x{10FFFF}]`, "a{2,}"}
	flags := []string{"", "(?i)", "(?m)", "(?s)", "(?U)"}
	heads := []string{"^", "", "^^"}
	tails := []string{"$", "", "$$"}
	alphabet := []string{"a", "b", "c", "A", "\n", "x", "\u00e9"}
	var values []string
	var gen func(cur string, n int)
	gen = func(cur string, n int) {
		values = append(values, cur)
		if n == 0 {
			return
		}
		for _, c := range alphabet {
			gen(cur+c, n-1)
		}
	}
	gen("", 3)
	var bodies []string
	for _, a := range atoms {
		bodies = append(bodies, a)
		for _, b := range atoms {
			bodies = append(bodies, a+b)
		}
	}
	for _, a := range atoms[:7] {
		for _, b := range atoms[:7] {
			for _, c := range atoms[:7] {
				bodies = append(bodies, a+b+c)
			}
		}
	}
	total, rewritten := 0, 0
	fails := map[string]int{}
	first := map[string]string{}
	for _, fl := range flags {
		for _, h := range heads {
			for _, tl := range tails {
				for _, body := range bodies {
					re := fl + h + body + tl
					for _, op := range []string{"=~", "!~"} {
						total++
						text := "SELECT v FROM m WHERE host " + op + " /" + re + "/"
						st, err := ParseStatement(text)
						if err != nil {
							continue
						}
						sel := st.(*SelectStatement)
						orig := CloneExpr(sel.Condition)
						sel.RewriteRegexConditions()
						if sel.Condition.String() == orig.String() {
							continue
						}
						rewritten++
						for _, v := range values {
							m := map[string]interface{}{"host": v}
							a := Eval(orig, m)
							b := Eval(sel.Condition, m)
							if a != b {
								class := "rewrite-changes-matches"
								if fl != "" {
									class += ":flag" + fl
								}
								fails[class]++
								if first[class] == "" {
									first[class] = fmt.Sprintf("%s rewritten to %s: value %q gives %v before and %v after", text, sel.Condition.String(), v, a, b)
								}
								break
							}
						}
					}
				}
			}
		}
	}
	// several regex conditions in one statement, joined by AND / OR in every mix of =~ and !~, and group-scoped flags:
	// every condition is rewritten on its own
	multi := []string{"^(a|b)$", "^(b|c)$", "^a$", "^[ab]c$", "^(?i:a|b)$", "^((?i)ab)$", "^(a|b|ab)$"}
	small := []string{"", "a", "b", "c", "A", "B", "ab", "AB", "ac", "bc"}
	for _, r1 := range multi {
		for _, r2 := range multi {
			for _, o1 := range []string{"=~", "!~"} {
				for _, o2 := range []string{"=~", "!~"} {
					for _, j := range []string{"AND", "OR"} {
						total++
						text := "SELECT v FROM m WHERE host " + o1 + " /" + r1 + "/ " + j + " region " + o2 + " /" + r2 + "/"
						st, err := ParseStatement(text)
						if err != nil {
							continue
						}
						sel := st.(*SelectStatement)
						orig := CloneExpr(sel.Condition)
						sel.RewriteRegexConditions()
						if sel.Condition.String() == orig.String() {
							continue
						}
						rewritten++
					vals:
						for _, v1 := range small {
							for _, v2 := range small {
								m := map[string]interface{}{"host": v1, "region": v2}
								if a, b := Eval(orig, m), Eval(sel.Condition, m); a != b {
									class := "rewrite-changes-matches:two-conditions"
									fails[class]++
									if first[class] == "" {
										first[class] = fmt.Sprintf("%s rewritten to %s: host %q region %q gives %v before and %v after", text, sel.Condition.String(), v1, v2, a, b)
									}
									break vals
								}
							}
						}
					}
				}
			}
		}
	}
	fmt.Printf("BOUNDED-COUNT: generated=%d accepted=%d\n", total, rewritten)
	for c, n := range fails {
		fmt.Printf("BOUNDED-FAIL: %s count=%d first=%s\n", c, n, first[c])
	}
}
