package influxql

// Bounded stand-in for the part of C09 the contracts do not reach: folding of
// time *strings* (which texts denote which instant is string parsing through
// library calls on opaque strings; the contracts start at TimeLiteral values).
// Bound: 6 instants x 6 spellings (date, date-time, date-time with ms, RFC3339
// Z, RFC3339 with offset, RFC3339 with nanoseconds) x 3 zones of the valuer
// (none, UTC-5, UTC+5:30; zone-less spellings are written in that zone) x 6
// expression shapes (s + 1h, s - 30m, 1h + s, now() - s, now() > s, now() = s).
// Oracle from the property statement: the folded literal is the value of the
// expression, i.e. the instant the spelling was produced from combined with the
// other operand. Labelled bounded; never counted as proved.

import (
	"fmt"
	"testing"
	"time"
)

func TestZZBoundedC09(t *testing.T) {
	fmt.Println("BOUNDED-BOUND: 6 instants x 6 time-string spellings x 3 valuer zones x 6 expression shapes (8 for spellings with an offset: s > s', s < s' across different offsets) through Reduce; oracle: the folded literal equals the instant the spelling was produced from combined with the other operand")
	now := time.Date(2020, 5, 6, 7, 8, 9, 123456789, time.UTC)
	instants := []time.Time{
		time.Date(2000, 1, 1, 0, 0, 0, 0, time.UTC),
		time.Date(2000, 1, 2, 3, 4, 5, 0, time.UTC),
		time.Date(2000, 1, 2, 3, 4, 5, 678000000, time.UTC),
		time.Date(2000, 1, 2, 3, 4, 5, 678901234, time.UTC),
		time.Date(1969, 12, 31, 23, 59, 59, 0, time.UTC),
		time.Date(2020, 5, 6, 7, 8, 9, 123456789, time.UTC),
	}
	zones := []*time.Location{nil, time.FixedZone("", -5*3600), time.FixedZone("", 5*3600+1800)}
	type form struct {
		name   string
		layout string
		zoned  bool // the text carries its own offset
	}
	forms := []form{
		{"date", "2006-01-02", false},
		{"datetime", "2006-01-02 15:04:05", false},
		{"datetime-ms", "2006-01-02 15:04:05.000", false},
		{"rfc3339-z", time.RFC3339, true},
		{"rfc3339-offset", time.RFC3339Nano, true},
		{"rfc3339-nano", time.RFC3339Nano, true},
	}
	total, ok := 0, 0
	fails := map[string]int{}
	first := map[string]string{}
	fail := func(c, msg string) {
		fails[c]++
		if _, seen := first[c]; !seen {
			first[c] = msg
		}
	}
	for zi, loc := range zones {
		eff := loc
		if eff == nil {
			eff = time.UTC
		}
		for _, ts := range instants {
			for _, f := range forms {
				var text string
				switch {
				case f.name == "rfc3339-offset":
					text = ts.In(time.FixedZone("", 2*3600)).Format(f.layout)
				case f.zoned:
					text = ts.UTC().Format(f.layout)
				default:
					text = ts.In(eff).Format(f.layout)
				}
				// the instant the text denotes (exact only if the layout keeps the precision)
				var back time.Time
				var err error
				if f.zoned {
					back, err = time.Parse(f.layout, text)
				} else {
					back, err = time.ParseInLocation(f.layout, text, eff)
				}
				if err != nil || !back.Equal(ts) {
					continue
				}
				lit := "'" + text + "'"
				shapes := []struct {
					name, text string
					want     string
				}{
					{"plus", lit + " + 1h", (&TimeLiteral{Val: ts.Add(time.Hour)}).String()},
					{"minus", lit + " - 30m", (&TimeLiteral{Val: ts.Add(-30 * time.Minute)}).String()},
					{"durplus", "1h + " + lit, (&TimeLiteral{Val: ts.Add(time.Hour)}).String()},
					{"nowminus", "now() - " + lit, (&DurationLiteral{Val: now.Sub(ts)}).String()},
					{"nowgt", "now() > " + lit, (&BooleanLiteral{Val: now.After(ts)}).String()},
					{"noweq", "now() = " + lit, (&BooleanLiteral{Val: now.Equal(ts)}).String()},
				}
				if f.zoned {
					// two spellings with different zone offsets: compared as instants, not as text
					other := ts.Add(-30 * time.Minute).In(time.FixedZone("", 3*3600)).Format(f.layout)
					shapes = append(shapes, struct {
						name, text string
						want     string
					}{"strgt", lit + " > '" + other + "'", (&BooleanLiteral{Val: true}).String()},
						struct {
							name, text string
							want     string
						}{"strlt", lit + " < '" + other + "'", (&BooleanLiteral{Val: false}).String()})
				}
				for _, sh := range shapes {
					total++
					class := fmt.Sprintf("%s/%s/zone%d", sh.name, f.name, zi)
					expr, err := ParseExpr(sh.text)
					if err != nil {
						fail("parse:"+class, sh.text+": "+err.Error())
						continue
					}
					red := Reduce(expr, &NowValuer{Now: now, Location: loc})
					got := red.String()
					// instants are compared as instants, not as text in a zone
					if tl, isT := red.(*TimeLiteral); isT {
						got = (&TimeLiteral{Val: tl.Val.UTC()}).String()
					}
					if got != sh.want {
						fail("folded-value:"+class, fmt.Sprintf("%s folded to %s, want %s", sh.text, got, sh.want))
						continue
					}
					ok++
				}
			}
		}
	}
	fmt.Printf("BOUNDED-COUNT: generated=%d accepted=%d\n", total, ok)
	for c, n := range fails {
		fmt.Printf("BOUNDED-FAIL: class=%s count=%d first=%q\n", c, n, first[c])
	}
}
