package influxql

// Bounded stand-in for the one C04 obligation listed UNPROVED inside the
// expression parser (the `panic("unexpected literal")` of parseUnaryExpr, whose
// unreachability needs the kind of the re-scanned token carried through
// Unscan). Bound: every sequence of 1..4 tokens over 17 spellings (both signs,
// the literal kinds, a name, a call opening, parentheses, an operator, a bound
// parameter of every value kind, a regex operator), parsed by ParseExpr with
// all eight parameter kinds bound. Oracle from the property statement: the
// parser returns (an expression or an error) and never panics. Labelled bounded.

import (
	"fmt"
	"strings"
	"testing"
)

func TestZZBoundedC04(t *testing.T) {
	fmt.Println("BOUNDED-BOUND: all token sequences of length 1..4 over 17 spellings (signs, number, integer, big unsigned, duration, string, name, call, parentheses, operator, five bound parameters), ParseExpr with parameters bound; oracle: returns, never panics")
	alphabet := []string{"+", "-", "1", "2.5", "9223372036854775808", "3h", "'s'", "x", "f(", "(", ")", "*", "$i", "$f", "$s", "$d", "$m"}
	params := map[string]interface{}{
		"i": int64(7), "f": 1.5, "s": "str", "d": map[string]interface{}{"duration": "1h"}, "m": map[string]interface{}{"identifier": "m"},
	}
	total, ok := 0, 0
	fails := map[string]int{}
	first := map[string]string{}
	try := func(text string) {
		total++
		defer func() {
			if r := recover(); r != nil {
				msg := fmt.Sprint(r)
				if i := strings.IndexByte(msg, ':'); i > 0 {
					msg = msg[:i]
				}
				c := "panic:" + strings.ReplaceAll(msg, " ", "_")
				fails[c]++
				if _, seen := first[c]; !seen {
					first[c] = text
				}
			}
		}()
		p := NewParser(strings.NewReader(text))
		p.SetParams(params)
		_, _ = p.ParseExpr()
		ok++
	}
	var rec func(prefix string, depth int)
	rec = func(prefix string, depth int) {
		for _, a := range alphabet {
			text := prefix + a
			try(text)
			if depth < 4 {
				rec(text+" ", depth+1)
			}
		}
	}
	rec("", 1)
	fmt.Printf("BOUNDED-COUNT: generated=%d accepted=%d\n", total, ok)
	for c, n := range fails {
		fmt.Printf("BOUNDED-FAIL: class=%s count=%d first=%q\n", c, n, first[c])
	}
}
