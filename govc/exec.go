package main

import (
	"fmt"
	"strconv"
	"go/constant"
	"go/token"
	"go/types"
	"math"
	"strings"

	"golang.org/x/tools/go/ssa"
)

func (e *Enc) constVal(c *ssa.Const) Val {
	sh := shapeOf(c.Type())
	if c.Value == nil {
		return zeroVal(sh)
	}
	switch sh.K {
	case KInt:
		if v, ok := constant.Int64Val(constant.ToInt(c.Value)); ok {
			return Val{Sh: sh, T: smtInt(v)}
		}
		if v, ok := constant.Uint64Val(constant.ToInt(c.Value)); ok {
			return Val{Sh: sh, T: fmt.Sprintf("%d", v)}
		}
		panic(unsupported("big int constant"))
	case KBool:
		if constant.BoolVal(c.Value) {
			return Val{Sh: sh, T: "true"}
		}
		return Val{Sh: sh, T: "false"}
	case KStr:
		return Val{Sh: sh, T: e.strLit(constant.StringVal(c.Value))}
	case KFloat:
		f, _ := constant.Float64Val(c.Value)
		return Val{Sh: sh, T: e.floatLit(f)}
	}
	panic(unsupported("constant of type " + c.Type().String()))
}

func smtInt(v int64) string {
	if v < 0 {
		if v == math.MinInt64 {
			return "(- 9223372036854775808)"
		}
		return fmt.Sprintf("(- %d)", -v)
	}
	return fmt.Sprintf("%d", v)
}

// strLit returns the constant symbol for a string literal. Distinct literals
// are distinct values; length and (for short ones) bytes are axiomatised.
func (e *Enc) strLit(s string) string {
	if s == "" {
		return "str_empty"
	}
	if n, ok := e.strLits[s]; ok {
		return n
	}
	n := fmt.Sprintf("strlit!%d", len(e.strLits)+1)
	e.strLits[s] = n
	e.emit(fmt.Sprintf("(declare-const %s Str) ; %q", n, s))
	e.assert(fmt.Sprintf("(= (slen %s) %d)", n, len(s)))
	if len(s) <= 16 {
		for i := 0; i < len(s); i++ {
			e.assert(fmt.Sprintf("(= (sat %s %d) %d)", n, i, s[i]))
		}
	}
	// distinct from other literals
	for o, on := range e.strLits {
		if o != s {
			e.assert(fmt.Sprintf("(not (= %s %s))", n, on))
		}
	}
	e.assert(fmt.Sprintf("(not (= %s str_empty))", n))
	return n
}

func (e *Enc) floatLit(f float64) string {
	if f == 0 && !math.Signbit(f) {
		return "f_zero"
	}
	key := fmt.Sprintf("%016x", math.Float64bits(f))
	if n, ok := e.fLits[key]; ok {
		return n
	}
	if f == math.Trunc(f) && math.Abs(f) < 1e15 {
		n := fmt.Sprintf("(i2f %s)", smtInt(int64(f)))
		e.fLits[key] = n
		return n
	}
	n := fmt.Sprintf("flit!%d", len(e.fLits)+1)
	e.fLits[key] = n
	e.emit(fmt.Sprintf("(declare-const %s F) ; %v", n, f))
	return n
}

// wrap applies two's-complement wrap-around for the integer type of sh.
func (e *Enc) wrap(sh *Shape, t string) string {
	b := sh.Bits
	if b == 0 {
		b = 64
	}
	if sh.Signed {
		return fmt.Sprintf("(wrapS%d %s)", b, t)
	}
	return fmt.Sprintf("(wrapU%d %s)", b, t)
}

func (e *Enc) arith(st *State, sh *Shape, raw string) string {
	w := e.wrap(sh, raw)
	if e.trackOvf {
		r := e.define("raw", "Int", raw)
		w = e.wrap(sh, r)
		old := e.ghost(st, "ovf")
		st.ghosts["ovf"] = boolVal(e.define("ovf", "Bool", or(old.T, fmt.Sprintf("(not (= %s %s))", w, r))))
	}
	return w
}

func (e *Enc) ghost(st *State, name string) Val {
	if v, ok := st.ghosts[name]; ok {
		return v
	}
	v := e.ghostInit(name)
	st.ghosts[name] = v
	return v
}

func (e *Enc) ghostInit(name string) Val {
	switch name {
	case "ovf":
		return boolVal("false")
	}
	if g, ok := e.w.ghostDecls[name]; ok {
		n := "g0_" + sanitize(name)
		if !e.lemmaDone["decl:"+n] {
			e.lemmaDone["decl:"+n] = true
			e.declare(n, g.Sort)
		}
		return Val{Sh: g.Sh, T: n}
	}
	panic("unknown ghost " + name)
}

func (e *Enc) binop(f *frame, st *State, in *ssa.BinOp) Val {
	x, y := e.value(f, in.X), e.value(f, in.Y)
	sh := shapeOf(in.Type())
	xs := x.Sh
	switch in.Op {
	case token.EQL, token.NEQ:
		var t string
		switch xs.K {
		case KFloat:
			t = fmt.Sprintf("(feq %s %s)", x.T, y.T)
		case KIface:
			// comparison against nil is exact; general interface equality compares (typ,val)
			t = e.eqVal(x, y)
		case KSlice:
			// only slice == nil is legal Go
			if isZeroSlice(y) {
				t = fmt.Sprintf("(= %s 0)", x.Sub[0].T)
			} else if isZeroSlice(x) {
				t = fmt.Sprintf("(= %s 0)", y.Sub[0].T)
			} else {
				panic(unsupported("slice comparison"))
			}
		case KStr:
			t = e.strEq(x.T, y.T)
		default:
			if x.Loc != nil || y.Loc != nil {
				if x.Loc != nil && y.Loc != nil {
					panic(unsupported("interior pointer comparison"))
				}
				// interior pointer vs nil
				t = "false"
			} else {
				t = e.eqVal(x, y)
			}
		}
		if in.Op == token.NEQ {
			t = not(t)
		}
		return Val{Sh: sh, T: t}
	case token.LSS, token.LEQ, token.GTR, token.GEQ:
		op := map[token.Token]string{token.LSS: "<", token.LEQ: "<=", token.GTR: ">", token.GEQ: ">="}[in.Op]
		switch xs.K {
		case KInt:
			return Val{Sh: sh, T: fmt.Sprintf("(%s %s %s)", op, x.T, y.T)}
		case KFloat:
			fop := map[token.Token]string{token.LSS: "flt", token.LEQ: "fle"}[in.Op]
			if fop != "" {
				return Val{Sh: sh, T: fmt.Sprintf("(%s %s %s)", fop, x.T, y.T)}
			}
			fop = map[token.Token]string{token.GTR: "flt", token.GEQ: "fle"}[in.Op]
			return Val{Sh: sh, T: fmt.Sprintf("(%s %s %s)", fop, y.T, x.T)}
		case KStr:
			switch in.Op {
			case token.LSS:
				e.strOrderFacts(x.T, y.T)
				return Val{Sh: sh, T: fmt.Sprintf("(strlt %s %s)", x.T, y.T)}
			case token.GTR:
				e.strOrderFacts(x.T, y.T)
				return Val{Sh: sh, T: fmt.Sprintf("(strlt %s %s)", y.T, x.T)}
			case token.LEQ:
				e.strOrderFacts(x.T, y.T)
				return Val{Sh: sh, T: fmt.Sprintf("(not (strlt %s %s))", y.T, x.T)}
			default:
				e.strOrderFacts(x.T, y.T)
				return Val{Sh: sh, T: fmt.Sprintf("(not (strlt %s %s))", x.T, y.T)}
			}
		}
		panic(unsupported("ordered comparison on " + xs.T.String()))
	}
	switch sh.K {
	case KBool:
		switch in.Op {
		case token.AND, token.LAND:
			return Val{Sh: sh, T: and(x.T, y.T)}
		case token.OR, token.LOR:
			return Val{Sh: sh, T: or(x.T, y.T)}
		}
	case KStr:
		if in.Op == token.ADD {
			return Val{Sh: sh, T: e.strCat(x.T, y.T)}
		}
	case KFloat:
		op := map[token.Token]string{token.ADD: "fadd", token.SUB: "fsub", token.MUL: "fmul", token.QUO: "fdiv"}[in.Op]
		if op != "" {
			return Val{Sh: sh, T: fmt.Sprintf("(%s %s %s)", op, x.T, y.T)}
		}
	case KInt:
		switch in.Op {
		case token.ADD:
			return Val{Sh: sh, T: e.arith(st, sh, fmt.Sprintf("(+ %s %s)", x.T, y.T))}
		case token.SUB:
			return Val{Sh: sh, T: e.arith(st, sh, fmt.Sprintf("(- %s %s)", x.T, y.T))}
		case token.MUL:
			return Val{Sh: sh, T: e.arith(st, sh, fmt.Sprintf("(* %s %s)", x.T, y.T))}
		case token.QUO:
			e.oblige("div0", e.site(in), in.Pos(), fmt.Sprintf("(not (= %s 0))", y.T), e.safetyProps(), "")
			return Val{Sh: sh, T: e.arith(st, sh, fmt.Sprintf("(tdiv %s %s)", x.T, y.T))}
		case token.REM:
			e.oblige("div0", e.site(in), in.Pos(), fmt.Sprintf("(not (= %s 0))", y.T), e.safetyProps(), "")
			return Val{Sh: sh, T: fmt.Sprintf("(tmod %s %s)", x.T, y.T)}
		case token.AND:
			return Val{Sh: sh, T: fmt.Sprintf("(bitand%s %s %s)", bitsTag(sh), x.T, y.T)}
		case token.OR:
			return Val{Sh: sh, T: fmt.Sprintf("(bitor%s %s %s)", bitsTag(sh), x.T, y.T)}
		case token.XOR:
			return Val{Sh: sh, T: fmt.Sprintf("(bitxor%s %s %s)", bitsTag(sh), x.T, y.T)}
		case token.AND_NOT:
			return Val{Sh: sh, T: fmt.Sprintf("(bitandnot%s %s %s)", bitsTag(sh), x.T, y.T)}
		case token.SHL:
			return Val{Sh: sh, T: e.wrap(sh, fmt.Sprintf("(shl %s %s)", x.T, y.T))}
		case token.SHR:
			return Val{Sh: sh, T: fmt.Sprintf("(shr %s %s)", x.T, y.T)}
		}
	}
	panic(unsupported(fmt.Sprintf("binop %s on %s", in.Op, in.Type())))
}

func bitsTag(sh *Shape) string {
	if sh.Signed {
		return "S"
	}
	return "U"
}

func isZeroSlice(v Val) bool { return v.Sh.K == KSlice && v.Sub[0].T == "0" }

func (e *Enc) strEq(a, b string) string {
	if a == "str_empty" {
		a, b = b, a
	}
	if b == "str_empty" {
		if a == "str_empty" {
			return "true"
		}
		// the empty string is the only string of length 0 (ground instance of the axiom)
		if e.inQuant == 0 && !e.lemmaDone["empty:"+a] {
			e.lemmaDone["empty:"+a] = true
			e.assert(fmt.Sprintf("(=> (= (slen %s) 0) (= %s str_empty))", a, a))
		}
		return fmt.Sprintf("(= (slen %s) 0)", a)
	}
	return fmt.Sprintf("(= %s %s)", a, b)
}

func (e *Enc) strCat(a, b string) string {
	if a == "str_empty" {
		return b
	}
	if b == "str_empty" {
		return a
	}
	t := e.define("cat", "Str", fmt.Sprintf("(scat %s %s)", a, b))
	e.assert(fmt.Sprintf("(= (slen %s) (+ (slen %s) (slen %s)))", t, a, b))
	return t
}

func (e *Enc) site(in ssa.Instruction) string {
	p := in.Pos()
	if !p.IsValid() {
		// fall back to an operand position
		if v, ok := in.(ssa.Value); ok {
			if rs := v.Referrers(); rs != nil {
				for _, r := range *rs {
					if r.Pos().IsValid() {
						p = r.Pos()
						break
					}
				}
			}
		}
	}
	if !p.IsValid() {
		return fmt.Sprintf("b%d", in.Block().Index)
	}
	ps := e.w.fset.Position(p)
	// site names are line-free: function-relative ordinal of the source text
	return e.w.siteName(e.top, ps, in)
}

func (e *Enc) safetyProps() []string {
	if e.fc == nil {
		return nil
	}
	return e.fc.SafetyProps
}

func (e *Enc) unop(f *frame, st *State, in *ssa.UnOp) Val {
	x := e.value(f, in.X)
	sh := shapeOf(in.Type())
	switch in.Op {
	case token.MUL: // load
		loc := e.deref(f, st, x, in.X.Type(), in)
		return e.load(st, loc)
	case token.NOT:
		return Val{Sh: sh, T: not(x.T)}
	case token.SUB:
		if sh.K == KFloat {
			return Val{Sh: sh, T: fmt.Sprintf("(fneg %s)", x.T)}
		}
		return Val{Sh: sh, T: e.arith(st, sh, fmt.Sprintf("(- %s)", x.T))}
	case token.XOR:
		return Val{Sh: sh, T: fmt.Sprintf("(bitnot%s %s)", bitsTag(sh), x.T)}
	}
	panic(unsupported("unop " + in.Op.String()))
}

// deref turns a pointer value into a location, with a nil obligation.
func (e *Enc) deref(f *frame, st *State, p Val, pt types.Type, in ssa.Instruction) *Loc {
	if p.Loc != nil {
		return p.Loc
	}
	ptr, ok := pt.Underlying().(*types.Pointer)
	if !ok {
		panic(unsupported("deref of non-pointer " + pt.String()))
	}
	e.oblige("nil", e.site(in), in.Pos(), fmt.Sprintf("(not (= %s 0))", p.T), e.safetyProps(), "")
	el := ptr.Elem()
	return &Loc{Base: p.T, Path: pathForType(el), Sh: shapeOf(el)}
}

func (e *Enc) block(f *frame, b *ssa.BasicBlock, st *State) {
	for _, ins := range b.Instrs {
		e.curState = st
		switch in := ins.(type) {
		case *ssa.Phi:
			// handled at block entry
		case *ssa.DebugRef:
		case *ssa.BinOp:
			f.vals[in] = e.nameVal(e.binop(f, st, in), f.prefix+in.Name())
		case *ssa.UnOp:
			f.vals[in] = e.nameVal(e.unop(f, st, in), f.prefix+in.Name())
		case *ssa.Alloc:
			e.allocInstr(f, st, in)
		case *ssa.FieldAddr:
			x := e.value(f, in.X)
			loc := e.deref(f, st, x, in.X.Type(), in)
			if loc.Sh.K != KStruct {
				panic(unsupported("FieldAddr on " + loc.Sh.T.String()))
			}
			nl := &Loc{Base: loc.Base, Path: loc.Path + "." + loc.Sh.Names[in.Field], Idx: loc.Idx, Sh: loc.Sh.Sub[in.Field]}
			f.vals[in] = Val{Sh: shapeOf(in.Type()), T: "0", Loc: nl}
		case *ssa.Field:
			x := e.value(f, in.X)
			f.vals[in] = x.Sub[in.Field]
		case *ssa.IndexAddr:
			e.indexAddr(f, st, in)
		case *ssa.Index:
			e.indexInstr(f, st, in)
		case *ssa.Store:
			addr := e.value(f, in.Addr)
			v := e.value(f, in.Val)
			loc := e.deref(f, st, addr, in.Addr.Type(), in)
			if v.Fn != nil || v.Loc != nil {
				if v.Loc != nil {
					panic(unsupported("store of interior pointer"))
				}
			}
			e.frameCheck(f, st, loc, in)
			if f.top && e.fc != nil && len(e.fc.StoreInvs) > 0 && e.noObl == 0 {
				e.storeInvs(f, st, loc, v, in)
			}
			e.storeVal(st, loc, v)
		case *ssa.Extract:
			t := e.value(f, in.Tuple)
			f.vals[in] = t.Sub[in.Index]
		case *ssa.Call:
			res := e.call(f, st, in)
			f.vals[in] = res
		case *ssa.Convert:
			f.vals[in] = e.nameVal(e.convert(f, st, in), f.prefix+in.Name())
		case *ssa.ChangeType:
			x := e.value(f, in.X)
			nv := x
			nv.Sh = shapeOf(in.Type())
			if !x.IsLeaf() {
				// same structure, different named type
				ts := flatten(x)
				nv = build(shapeOf(in.Type()), &ts)
				nv.Fn = x.Fn
			}
			f.vals[in] = nv
		case *ssa.ChangeInterface:
			x := e.value(f, in.X)
			f.vals[in] = Val{Sh: shapeOf(in.Type()), Sub: x.Sub}
		case *ssa.MakeInterface:
			f.vals[in] = e.nameVal(e.makeInterface(f, st, in), f.prefix+in.Name())
		case *ssa.TypeAssert:
			f.vals[in] = e.nameVal(e.typeAssert(f, st, in), f.prefix+in.Name())
		case *ssa.Slice:
			f.vals[in] = e.nameVal(e.sliceInstr(f, st, in), f.prefix+in.Name())
		case *ssa.MakeSlice:
			f.vals[in] = e.makeSlice(f, st, in)
		case *ssa.MakeMap:
			r := e.alloc(st)
			mt := in.Type().Underlying().(*types.Map)
			e.initMap(st, r, mt)
			f.vals[in] = Val{Sh: shapeOf(in.Type()), T: r}
		case *ssa.MapUpdate:
			e.mapUpdate(f, st, in)
		case *ssa.Lookup:
			f.vals[in] = e.nameVal(e.lookup(f, st, in), f.prefix+in.Name())
		case *ssa.MakeClosure:
			fn := in.Fn.(*ssa.Function)
			fv := &FnVal{Fn: fn}
			for _, b := range in.Bindings {
				fv.Bindings = append(fv.Bindings, e.value(f, b))
			}
			f.vals[in] = Val{Sh: shapeOf(in.Type()), T: e.funcTag(fn), Fn: fv}
		case *ssa.Range:
			e.rangeInstr(f, st, in)
		case *ssa.Next:
			e.nextInstr(f, st, in)
		case *ssa.If:
			c := e.value(f, in.Cond)
			cn := e.define(f.prefix+fmt.Sprintf("c_b%d", b.Index), "Bool", c.T)
			f.edge[[2]int{b.Index, b.Succs[0].Index}] = and(f.reach[b], cn)
			f.edge[[2]int{b.Index, b.Succs[1].Index}] = and(f.reach[b], not(cn))
			e.backEdges(f, b, st)
		case *ssa.Jump:
			f.edge[[2]int{b.Index, b.Succs[0].Index}] = f.reach[b]
			e.backEdges(f, b, st)
		case *ssa.Return:
			var vs []Val
			for _, r := range in.Results {
				vs = append(vs, e.value(f, r))
			}
			rs := retSite{reach: f.reach[b], vals: vs, st: st.clone(), pos: in.Pos(), blk: b}
			f.rets = append(f.rets, rs)
			if f.top {
				e.checkPost(f, rs)
			}
		case *ssa.Panic:
			e.oblige("panic", e.site(in), in.Pos(), "false", e.safetyProps(), "")
		case *ssa.RunDefers:
		default:
			panic(unsupported(fmt.Sprintf("instruction %T", ins)))
		}
	}
}

func (e *Enc) allocInstr(f *frame, st *State, in *ssa.Alloc) {
	r := e.alloc(st)
	el := in.Type().(*types.Pointer).Elem()
	if isLibStruct(el) {
		// library object (strings.Builder, bytes.Buffer, ...): ghost content only
		e.libObjectInit(st, r, el)
		f.vals[in] = Val{Sh: shapeOf(in.Type()), T: r}
		return
	}
	e.initObject(st, r, el)
	f.vals[in] = Val{Sh: shapeOf(in.Type()), T: r}
	if !hasArray(shapeOf(el)) || true {
		f.locals = append(f.locals, localAlloc{in: in, ref: r, names: leafNames(pathForType(el), shapeOf(el))})
	}
}

type localAlloc struct {
	isSlice bool
	in    ssa.Value // *ssa.Alloc or *ssa.MakeSlice
	ref   string
	names []string
	esc   []ssa.Instruction
	done  bool
}

// escapePoints: instructions at which a pointer to the allocation (or into it)
// becomes visible to other code.
func escapePoints(a ssa.Value, seen map[ssa.Value]bool) []ssa.Instruction {
	var out []ssa.Instruction
	if seen[a] {
		return nil
	}
	seen[a] = true
	rs := a.Referrers()
	if rs == nil {
		return nil
	}
	for _, r := range *rs {
		switch x := r.(type) {
		case *ssa.DebugRef:
		case *ssa.UnOp:
			if x.Op.String() == "*" && x.X == a {
				continue
			}
			out = append(out, r)
		case *ssa.Store:
			if x.Addr == a && x.Val != a {
				continue
			}
			out = append(out, r)
		case *ssa.FieldAddr:
			out = append(out, escapePoints(x, seen)...)
		case *ssa.IndexAddr:
			if x.X == a {
				out = append(out, escapePoints(x, seen)...)
			} else {
				out = append(out, r)
			}
		default:
			out = append(out, r)
		}
	}
	return out
}

// sliceEscapePoints: instructions at which a slice made by this activation (or a
// pointer into its backing array) becomes visible to other code.
func sliceEscapePoints(a ssa.Value, seen map[ssa.Value]bool) []ssa.Instruction {
	var out []ssa.Instruction
	if seen[a] {
		return nil
	}
	seen[a] = true
	rs := a.Referrers()
	if rs == nil {
		return nil
	}
	for _, r := range *rs {
		switch x := r.(type) {
		case *ssa.DebugRef:
		case *ssa.IndexAddr:
			if x.X == a {
				out = append(out, escapePoints(x, seen)...)
			} else {
				out = append(out, r)
			}
		case *ssa.Call:
			if b, ok := x.Call.Value.(*ssa.Builtin); ok && (b.Name() == "len" || b.Name() == "cap") {
				continue
			}
			out = append(out, r)
		default:
			out = append(out, r)
		}
	}
	return out
}

func mayPrecede(x, c ssa.Instruction) bool {
	xb, cb := x.Block(), c.Block()
	if xb == cb {
		for _, ins := range xb.Instrs {
			if ins == x {
				return true
			}
			if ins == c {
				break
			}
		}
	}
	// can cb be reached from xb by at least one edge?
	seen := map[*ssa.BasicBlock]bool{}
	stack := append([]*ssa.BasicBlock{}, xb.Succs...)
	for len(stack) > 0 {
		b := stack[len(stack)-1]
		stack = stack[:len(stack)-1]
		if seen[b] {
			continue
		}
		seen[b] = true
		if b == cb {
			return true
		}
		stack = append(stack, b.Succs...)
	}
	return false
}

// preserveLocals: objects allocated by this activation whose address has not
// yet escaped cannot be written by a callee: their cells keep their values
// across the havoc of a call.
func (e *Enc) preserveLocals(f *frame, in ssa.Instruction, pre, st *State) {
	for i := range f.locals {
		l := &f.locals[i]
		if !l.done {
			if l.isSlice {
				l.esc = sliceEscapePoints(l.in, map[ssa.Value]bool{})
			} else {
				l.esc = escapePoints(l.in, map[ssa.Value]bool{})
			}
			l.done = true
		}
		escaped := false
		for _, x := range l.esc {
			if x == in || mayPrecede(x, in) {
				escaped = true
				break
			}
		}
		if escaped {
			continue
		}
		for _, n := range l.names {
			h0, ok0 := pre.heaps[n]
			h1, ok1 := st.heaps[n]
			if !ok0 || !ok1 || h0 == h1 {
				continue
			}
			e.assume(fmt.Sprintf("(= (select %s %s) (select %s %s))", h1.Term, l.ref, h0.Term, l.ref))
		}
	}
}

func (e *Enc) indexAddr(f *frame, st *State, in *ssa.IndexAddr) {
	x := e.value(f, in.X)
	idx := e.value(f, in.Index)
	if e.instDepth == 0 && e.inQuant == 0 {
		if st, ok := in.X.Type().Underlying().(*types.Slice); ok {
			terms := []string{idx.T}
			// an index into x[lo:hi] is index lo+i of x: facts stated about x are instantiated there too
			if sl, ok := in.X.(*ssa.Slice); ok && sl.Low != nil {
				if lo, ok := f.vals[sl.Low]; ok {
					terms = append(terms, e.define("ixlo", "Int", fmt.Sprintf("(+ %s %s)", lo.T, idx.T)))
				} else if c, ok := sl.Low.(*ssa.Const); ok {
					terms = append(terms, e.define("ixlo", "Int", fmt.Sprintf("(+ %s %s)", e.constVal(c).T, idx.T)))
				}
			}
			e.instantiateFactsFor(terms, elemPath(st.Elem()))
		}
	}
	switch xt := in.X.Type().Underlying().(type) {
	case *types.Slice:
		e.oblige("idx", e.site(in), in.Pos(), fmt.Sprintf("(and (<= 0 %s) (< %s %s))", idx.T, idx.T, x.Sub[2].T), e.safetyProps(), "")
		loc := &Loc{Base: x.Sub[0].T, Path: elemPath(xt.Elem()), Idx: e.define("ix", "Int", fmt.Sprintf("(+ %s %s)", x.Sub[1].T, idx.T)), Sh: shapeOf(xt.Elem())}
		f.vals[in] = Val{Sh: shapeOf(in.Type()), T: "0", Loc: loc}
	case *types.Pointer:
		at := xt.Elem().Underlying().(*types.Array)
		loc := e.deref(f, st, x, in.X.Type(), in)
		e.oblige("idx", e.site(in), in.Pos(), fmt.Sprintf("(and (<= 0 %s) (< %s %d))", idx.T, idx.T, at.Len()), e.safetyProps(), "")
		if loc.Idx != "" {
			panic(unsupported("nested array indexing"))
		}
		p := loc.Path
		if !strings.HasSuffix(p, "[]") {
			p += "[]"
		}
		f.vals[in] = Val{Sh: shapeOf(in.Type()), T: "0", Loc: &Loc{Base: loc.Base, Path: p, Idx: idx.T, Sh: shapeOf(at.Elem())}}
	default:
		panic(unsupported("IndexAddr on " + in.X.Type().String()))
	}
}

func (e *Enc) indexInstr(f *frame, st *State, in *ssa.Index) {
	x := e.value(f, in.X)
	idx := e.value(f, in.Index)
	switch in.X.Type().Underlying().(type) {
	case *types.Basic: // string
		e.oblige("idx", e.site(in), in.Pos(), fmt.Sprintf("(and (<= 0 %s) (< %s (slen %s)))", idx.T, idx.T, x.T), e.safetyProps(), "")
		v := Val{Sh: shapeOf(in.Type()), T: e.define(f.prefix+in.Name(), "Int", fmt.Sprintf("(sat %s %s)", x.T, idx.T))}
		e.assume(fmt.Sprintf("(and (<= 0 %s) (<= %s 255))", v.T, v.T))
		f.vals[in] = v
	default:
		panic(unsupported("Index on " + in.X.Type().String()))
	}
}

// sub / add fold numeric literals so that constant lengths stay visible.
func sub(a, b string) string {
	if b == "0" {
		return a
	}
	x, e1 := strconv.ParseInt(a, 10, 64)
	y, e2 := strconv.ParseInt(b, 10, 64)
	if e1 == nil && e2 == nil {
		return smtInt(x - y)
	}
	return fmt.Sprintf("(- %s %s)", a, b)
}

func add(a, b string) string {
	if b == "0" {
		return a
	}
	if a == "0" {
		return b
	}
	x, e1 := strconv.ParseInt(a, 10, 64)
	y, e2 := strconv.ParseInt(b, 10, 64)
	if e1 == nil && e2 == nil {
		return smtInt(x + y)
	}
	return fmt.Sprintf("(+ %s %s)", a, b)
}

func (e *Enc) sliceInstr(f *frame, st *State, in *ssa.Slice) Val {
	x := e.value(f, in.X)
	var lo, hi, max string
	if in.Low != nil {
		lo = e.value(f, in.Low).T
	} else {
		lo = "0"
	}
	sh := shapeOf(in.Type())
	switch xt := in.X.Type().Underlying().(type) {
	case *types.Basic: // string
		if in.High != nil {
			hi = e.value(f, in.High).T
		} else {
			hi = fmt.Sprintf("(slen %s)", x.T)
		}
		e.oblige("slice", e.site(in), in.Pos(), fmt.Sprintf("(and (<= 0 %s) (<= %s %s) (<= %s (slen %s)))", lo, lo, hi, hi, x.T), e.safetyProps(), "")
		t := e.define("sub", "Str", fmt.Sprintf("(ssub %s %s %s)", x.T, lo, hi))
		e.assert(fmt.Sprintf("(=> (and (<= 0 %s) (<= %s %s) (<= %s (slen %s))) (= (slen %s) (- %s %s)))", lo, lo, hi, hi, x.T, t, hi, lo))
		return Val{Sh: sh, T: t}
	case *types.Slice:
		if in.High != nil {
			hi = e.value(f, in.High).T
		} else {
			hi = x.Sub[2].T
		}
		capT := x.Sub[3].T
		if in.Max != nil {
			max = e.value(f, in.Max).T
			e.oblige("slice", e.site(in), in.Pos(), fmt.Sprintf("(and (<= 0 %s) (<= %s %s) (<= %s %s) (<= %s %s))", lo, lo, hi, hi, max, max, capT), e.safetyProps(), "")
		} else {
			max = capT
			e.oblige("slice", e.site(in), in.Pos(), fmt.Sprintf("(and (<= 0 %s) (<= %s %s) (<= %s %s))", lo, lo, hi, hi, capT), e.safetyProps(), "")
		}
		return Val{Sh: sh, Sub: []Val{x.Sub[0], intVal(add(x.Sub[1].T, lo)), intVal(sub(hi, lo)), intVal(sub(max, lo))}}
	case *types.Pointer: // *[N]T
		at := xt.Elem().Underlying().(*types.Array)
		loc := e.deref(f, st, x, in.X.Type(), in)
		if loc.Idx != "" || (loc.Path != elemPath(at.Elem())) {
			panic(unsupported("slicing an interior array"))
		}
		n := fmt.Sprintf("%d", at.Len())
		if in.High != nil {
			hi = e.value(f, in.High).T
		} else {
			hi = n
		}
		e.oblige("slice", e.site(in), in.Pos(), fmt.Sprintf("(and (<= 0 %s) (<= %s %s) (<= %s %s))", lo, lo, hi, hi, n), e.safetyProps(), "")
		return Val{Sh: sh, Sub: []Val{intVal(loc.Base), intVal(lo), intVal(sub(hi, lo)), intVal(sub(n, lo))}}
	}
	panic(unsupported("Slice on " + in.X.Type().String()))
}

func (e *Enc) makeSlice(f *frame, st *State, in *ssa.MakeSlice) Val {
	l := e.value(f, in.Len).T
	c := e.value(f, in.Cap).T
	e.oblige("makeslice", e.site(in), in.Pos(), fmt.Sprintf("(and (<= 0 %s) (<= %s %s))", l, l, c), e.safetyProps(), "")
	r := e.alloc(st)
	el := in.Type().Underlying().(*types.Slice).Elem()
	e.initElems(st, r, el)
	if !hasArray(shapeOf(el)) {
		f.locals = append(f.locals, localAlloc{in: in, ref: r, names: leafNames(elemPath(el), shapeOf(el)), isSlice: true})
	}
	return Val{Sh: shapeOf(in.Type()), Sub: []Val{intVal(r), intVal("0"), intVal(l), intVal(c)}}
}

// initElems zero-fills the element arrays of a fresh backing array.
func (e *Enc) initElems(st *State, ref string, el types.Type) {
	sh := shapeOf(el)
	if hasArray(sh) {
		panic(unsupported("slice of arrays"))
	}
	ls := leavesOf(sh)
	zs := flatten(zeroVal(sh))
	p := elemPath(el)
	for i, l := range ls {
		h := e.heap(st, p+l.Path, l.K)
		n := &Heap{Name: h.Name, Sort: h.Sort, Indexed: true, Prev: h}
		n.Term = e.define("H_"+sanitize(h.Name), h.Sort, fmt.Sprintf("(store %s %s ((as const (Array Int %s)) %s))", h.Term, ref, l.K.Sort(), zs[i]))
		st.heaps[h.Name] = n
	}
}

func (e *Enc) convert(f *frame, st *State, in *ssa.Convert) Val {
	x := e.value(f, in.X)
	from, to := x.Sh, shapeOf(in.Type())
	switch {
	case from.K == KInt && to.K == KInt:
		// widening keeps the value; narrowing or sign change wraps
		if from.Signed == to.Signed && bitsOf(to) >= bitsOf(from) {
			return Val{Sh: to, T: x.T}
		}
		if !from.Signed && to.Signed && bitsOf(to) > bitsOf(from) {
			return Val{Sh: to, T: x.T}
		}
		return Val{Sh: to, T: e.wrap(to, x.T)}
	case from.K == KInt && to.K == KFloat:
		return Val{Sh: to, T: fmt.Sprintf("(i2f %s)", x.T)}
	case from.K == KFloat && to.K == KInt:
		t := fmt.Sprintf("(f2i%s%d %s)", bitsTag(to), bitsOf(to), x.T)
		v := Val{Sh: to, T: e.define(f.prefix+in.Name(), "Int", t)}
		e.assumeRange(st, v)
		return v
	case from.K == KFloat && to.K == KFloat:
		return Val{Sh: to, T: x.T}
	case from.K == KInt && to.K == KStr:
		// string(rune)
		t := e.define("srune", "Str", fmt.Sprintf("(srune %s)", x.T))
		e.assert(fmt.Sprintf("(and (<= 1 (slen %s)) (<= (slen %s) 4))", t, t))
		return Val{Sh: to, T: t}
	case from.K == KStr && to.K == KSlice:
		// []rune(s) / []byte(s): fresh backing array whose content is the ghost view of s
		el := in.Type().Underlying().(*types.Slice).Elem()
		r := e.alloc(st)
		view, ln := "runes", "rlen"
		if shapeOf(el).Bits == 8 {
			view, ln = "bytes", "slen"
		}
		h := e.heap(st, elemPath(el), KInt)
		n := &Heap{Name: h.Name, Sort: h.Sort, Indexed: true, Prev: h}
		n.Term = e.define("H_"+sanitize(h.Name), h.Sort, fmt.Sprintf("(store %s %s (%s %s))", h.Term, r, view, x.T))
		st.heaps[h.Name] = n
		l := fmt.Sprintf("(%s %s)", ln, x.T)
		e.assert(fmt.Sprintf("(and (<= 0 (rlen %s)) (<= (rlen %s) (slen %s)) (=> (< 0 (slen %s)) (< 0 (rlen %s))))", x.T, x.T, x.T, x.T, x.T))
		return Val{Sh: to, Sub: []Val{intVal(r), intVal("0"), intVal(l), intVal(l)}}
	case from.K == KSlice && to.K == KStr:
		// string(runes[lo:hi]) / string(bytes)
		el := in.X.Type().Underlying().(*types.Slice).Elem()
		h := e.heap(st, elemPath(el), KInt)
		fn := "sofrunes"
		if shapeOf(el).Bits == 8 {
			fn = "sofbytes"
		}
		t := e.define("sof", "Str", fmt.Sprintf("(%s (select %s %s) %s %s)", fn, h.Term, x.Sub[0].T, x.Sub[1].T, x.Sub[2].T))
		e.frameLemmas(h, x.Sub[0].T, map[*Heap]bool{})
		if fn == "sofbytes" {
			e.assert(fmt.Sprintf("(= (slen %s) %s)", t, x.Sub[2].T))
		} else {
			e.assert(fmt.Sprintf("(and (<= %s (slen %s)) (= (rlen %s) %s))", x.Sub[2].T, t, t, x.Sub[2].T))
			e.assert(fmt.Sprintf("(=> (> %s 0) (= (runeat %s 0) (select (select %s %s) %s)))", x.Sub[2].T, t, h.Term, x.Sub[0].T, x.Sub[1].T))
		}
		return Val{Sh: to, T: t}
	case from.K == to.K && from.IsLeafKind():
		return Val{Sh: to, T: x.T}
	}
	panic(unsupported(fmt.Sprintf("convert %s -> %s", in.X.Type(), in.Type())))
}

func (s *Shape) IsLeafKind() bool {
	switch s.K {
	case KInt, KBool, KStr, KFloat, KTime, KOpaque:
		return true
	}
	return false
}

func bitsOf(sh *Shape) int {
	if sh.Bits == 0 {
		return 64
	}
	return sh.Bits
}

// backEdges checks loop invariants on back edges leaving block b.
func (e *Enc) backEdges(f *frame, b *ssa.BasicBlock, st *State) {
	for _, s := range b.Succs {
		if isBackEdge(b, s) {
			if li := f.loops[s]; li != nil {
				e.checkBackEdge(f, li, b, st)
			}
		}
	}
}

// storeInvs: obligations attached to every store to a named field inside the
// function under contract (self = the object written, val = the value stored,
// evaluated in the state before the store).
func (e *Enc) storeInvs(f *frame, st *State, loc *Loc, v Val, in *ssa.Store) {
	for _, si := range e.fc.StoreInvs {
		if loc.Path != si.Path || loc.Idx != "" {
			continue
		}
		fa, ok := in.Addr.(*ssa.FieldAddr)
		if !ok {
			continue
		}
		env := e.baseEnv(f, st)
		env.blk = in.Block()
		env.vars["self"] = Val{Sh: shapeOf(fa.X.Type()), T: loc.Base}
		env.vars["val"] = v
		goal := e.safeEvalGoal(si.C, env)
		lb := si.C.Label
		if lb == "" {
			lb = si.Path
		}
		e.oblige("storeinv", lb+"@"+e.site(in), in.Pos(), goal, si.C.Props, si.C.Text)
	}
}

// strOrderFacts: ground instances of "the byte-wise string order is a strict
// total order" for one compared pair (trichotomy).
func (e *Enc) strOrderFacts(a, b string) {
	if e.inQuant > 0 {
		return
	}
	key := "strord:" + a + "|" + b
	if e.lemmaDone[key] {
		return
	}
	e.lemmaDone[key] = true
	e.assert(fmt.Sprintf("(and (=> (= %s %s) (and (not (strlt %s %s)) (not (strlt %s %s)))) (=> (not (= %s %s)) (xor (strlt %s %s) (strlt %s %s))))", a, b, a, b, b, a, a, b, a, b, b, a))
}
