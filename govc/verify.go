package main

import (
	"go/token"
	"fmt"
	"strings"
	"go/ast"
	"go/constant"
	"go/types"
	"runtime/debug"
	"sort"

	"golang.org/x/tools/go/ssa"
)

// verifyFunc encodes fn under its contract and returns the obligations.
func verifyFunc(w *World, fn *ssa.Function, fc *FuncContract) (fr *FuncResult) {
	name := w.funcName(fn)
	fr = &FuncResult{Name: name}
	e := newEnc(w, fn, fc)
	defer func() {
		if r := recover(); r != nil {
			switch x := r.(type) {
			case unsupportedErr:
				fr.Err = "out of subset: " + x.msg
			case contractErr:
				fr.Err = "contract error: " + x.msg
			case specErr:
				fr.Err = "contract error: " + x.msg
			default:
				fr.Err = fmt.Sprintf("engine error: %v\n%s", r, debug.Stack())
			}
			fr.Enc = nil
			fr.Obls = nil
		}
	}()
	e.trackOvf = fc != nil && fc.TracksOvf
	st := &State{heaps: map[string]*Heap{}, ghosts: map[string]Val{}, dirty: map[string]*dirtyRec{}}
	e.declare("next0", "Int")
	e.assert(fmt.Sprintf("(> next0 %d)", w.numGlobals()+1))
	st.next = "next0"
	e.nextEntry = "next0"
	e.curReach = "true"
	e.curState = st
	f := e.newFrame(fn, true)
	e.topFrame = f
	e.entry = st.clone()
	var args []Val
	for _, p := range fn.Params {
		v := e.freshVal(shapeOf(p.Type()), "p_"+sanitize(p.Name()))
		e.assumeLoaded(st, v)
		args = append(args, v)
	}
	for _, fv := range fn.FreeVars {
		v := e.freshVal(shapeOf(fv.Type()), "fv_"+sanitize(fv.Name()))
		e.assumeLoaded(st, v)
		if _, isPtr := fv.Type().(*types.Pointer); isPtr && v.Sh.K == KInt {
			e.assume(fmt.Sprintf("(not (= %s 0))", v.T)) // a captured variable is a cell of the enclosing activation
		}
		f.vals[fv] = v
	}
	e.entry = st.clone()
	// method receivers of pointer type are non-nil only if the contract says so.
	f.params = args
	for i, p := range fn.Params {
		f.vals[p] = args[i]
	}
	// AST invariant for parameters (G3): sealed AST interfaces hold no typed-nil
	// pointers; slices of AST nodes hold no nil elements.
	for i, p := range fn.Params {
		e.assumeParamWF(st, args[i], p.Type(), name, p.Name())
	}
	if len(w.contracts.GlobalInvs) > 0 && !(fc != nil && fc.EstablishesGlobalInvs) {
		genv := &SpecEnv{vars: map[string]Val{}, st: st}
		for _, c := range w.contracts.GlobalInvs {
			if !e.mentionsUsedGlobal(c, fn) {
				continue
			}
			e.assume(e.safeEvalHyp(c, genv))
			e.assumed = append(e.assumed, "package-level invariant, proved as post-condition of the package initialiser (init#post@globalinv*) and preserved because no other function writes package-level state (C17 sweep): "+c.Text)
		}
	}
	if fc != nil && fc.EstablishesGlobalInvs {
		// the initialiser runs once: its guard is false on entry
		if g, ok := w.pkg.Members["init$guard"].(*ssa.Global); ok {
			gv := e.load(st, e.globalAddr(g).Loc)
			e.assume(not(gv.T))
		}
	}
	if fc != nil {
		env := e.baseEnv(f, st)
		for _, c := range fc.Requires {
			e.assume(e.safeEvalHyp(c, env))
		}
		for _, c := range fc.Assumes {
			e.assume(e.safeEvalHyp(c, env))
			e.assumed = append(e.assumed, fmt.Sprintf("%s: assume %s", name, c.Text))
		}
		// vacuity: the pre-condition must be satisfiable
		if len(fc.Requires)+len(fc.Assumes) > 0 {
			o := e.oblige("cover", "requires", fn.Pos(), "true", fc.Props, "requires is satisfiable")
			if o != nil {
				o.Cover = true
			}
		}
	}
	if fc != nil && len(fc.NoRead) > 0 {
		rs := map[string]bool{}
		top := w.readSet(fn, map[*ssa.Function]bool{}, rs)
		for _, nr := range fc.NoRead {
			bad := top
			for n := range rs {
				if n == nr || strings.HasPrefix(n, nr+"#") || strings.HasPrefix(n, nr+".") {
					bad = true
				}
			}
			goal := "true"
			if bad {
				goal = "false"
			}
			e.oblige("readframe", nr, fn.Pos(), goal, fc.Props, "noread "+nr+" (no load of this field in the function or anything it calls)")
		}
	}
	e.entry = st.clone()
	if fc != nil && len(fc.EntryLets) > 0 {
		e.entryLets = map[string]Val{}
		for _, el := range fc.EntryLets {
			ex, err := parseSpec(el[1])
			if err != nil {
				panic(contractErr{fmt.Sprintf("%s: entrylet %s: %v", name, el[0], err)})
			}
			env := e.baseEnv(f, st.clone())
			func() {
				defer func() {
					if r := recover(); r != nil {
						if se, ok := r.(specErr); ok {
							panic(contractErr{fmt.Sprintf("%s: entrylet %s: %s", name, el[0], se.msg)})
						}
						panic(r)
					}
				}()
				e.entryLets[el[0]] = e.evalSpec(ex, env)
			}()
		}
	}
	e.run(f, args, st, "true")
	// vacuity: every return is reachable under the pre-condition
	if fc != nil {
		for i, rs := range f.rets {
			_ = i
			e.curReach = "true"
			o := &Obligation{Name: fmt.Sprintf("%s#cover@return%d", name, i+1), Kind: "cover", Func: name, Props: fc.Props,
				Pos: e.posOf(rs.pos), At: len(e.lines), Reach: rs.reach, Goal: "true", Cover: true, Clause: "return is reachable"}
			e.covers = append(e.covers, o)
		}
	}
	var probes []Probe
	for i := range fn.Params {
		for _, t := range flatten(args[i]) {
			probes = append(probes, Probe{t, t})
		}
		if args[i].Sh.K == KStr {
			t := args[i].T
			probes = append(probes, Probe{"slen", "(slen " + t + ")"}, Probe{"rlen", "(rlen " + t + ")"})
			for k := 0; k < 24; k++ {
				probes = append(probes, Probe{"r", fmt.Sprintf("(select (runes %s) %d)", t, k)}, Probe{"b", fmt.Sprintf("(sat %s %d)", t, k)})
			}
		}
	}
	for _, o := range e.obls {
		o.Probes = append(o.Probes, probes...)
	}
	for k := range e.usedTypeInvs {
		e.assumed = append(e.assumed, "AST type invariant assumed for objects that exist at entry (parser output): "+k)
	}
	for _, u := range e.unproved {
		e.assumed = append(e.assumed, "UNPROVED obligation (assumed, not counted): "+u)
	}
	sort.Strings(e.assumed)
	fr.Enc = e
	fr.Obls = e.obls
	fr.HavocSites = e.havocSites
	fr.HavocNotes = e.havocNotes
	fr.Lines = len(e.lines)
	for k := range e.usedLib {
		fr.UsedLib = append(fr.UsedLib, k)
	}
	sort.Strings(fr.UsedLib)
	for k := range e.usedContracts {
		fr.UsedCtr = append(fr.UsedCtr, k)
	}
	sort.Strings(fr.UsedCtr)
	return fr
}

// verifyLemma: a closed formula over spec functions, universally quantified
// over its declared variables; proved by refuting its negation on fresh
// constants (full domain of the declared Go type).
func verifyLemma(w *World, lm *Lemma) (fr *FuncResult) {
	fr = &FuncResult{Name: "lemma " + lm.Name}
	e := newEnc(w, nil, nil)
	defer func() {
		if r := recover(); r != nil {
			switch x := r.(type) {
			case unsupportedErr:
				fr.Err = "out of subset: " + x.msg
			case specErr:
				fr.Err = fmt.Sprintf("contract error: %s:%d: %s", lm.File, lm.Line, x.msg)
			default:
				fr.Err = fmt.Sprintf("engine error: %v\n%s", r, debug.Stack())
			}
			fr.Enc, fr.Obls = nil, nil
		}
	}()
	st := &State{heaps: map[string]*Heap{}, ghosts: map[string]Val{}, dirty: map[string]*dirtyRec{}}
	e.declare("next0", "Int")
	e.assert(fmt.Sprintf("(> next0 %d)", w.numGlobals()+1))
	st.next, e.nextEntry, e.curReach, e.curState = "next0", "next0", "true", st
	e.entry = st
	env := &SpecEnv{vars: map[string]Val{}, st: st}
	var probes []Probe
	for _, v := range lm.Vars {
		var t types.Type
		switch v.Type {
		case "Int":
			t = nil
		default:
			ex, err := parseSpec(v.Type)
			if err != nil {
				specFail("lemma variable type %s", v.Type)
			}
			t = w.resolveType(ex)
		}
		var val Val
		if t == nil {
			val = intVal(e.fresh("lv_"+v.Name, "Int")) // mathematical integer
		} else {
			val = e.freshVal(shapeOf(t), "lv_"+v.Name)
			e.assumeLoaded(st, val)
		}
		env.vars[v.Name] = val
		for i, l := range flatten(val) {
			probes = append(probes, Probe{fmt.Sprintf("%s.%d", v.Name, i), l})
		}
	}
	goal := e.evalBool(lm.Expr, env)
	e.topName = "lemma " + lm.Name
	o := &Obligation{Name: "lemma " + lm.Name, Kind: "lemma", Func: "lemma " + lm.Name, Props: lm.Props, Pos: fmt.Sprintf("%s:%d", lm.File, lm.Line),
		At: len(e.lines), Reach: "true", Goal: goal, Clause: lm.Text, Probes: probes}
	e.obls = append(e.obls, o)
	fr.Enc, fr.Obls, fr.Lines = e, e.obls, len(e.lines)
	return fr
}

// mentionsUsedGlobal: the invariant is only assumed in functions that read one
// of the package-level variables it mentions (keeps scripts small).
func (e *Enc) mentionsUsedGlobal(c *Clause, fn *ssa.Function) bool {
	used := map[string]bool{}
	var visit func(f *ssa.Function, depth int)
	seen := map[*ssa.Function]bool{}
	visit = func(f *ssa.Function, depth int) {
		if seen[f] || depth > 3 {
			return
		}
		seen[f] = true
		for _, b := range f.Blocks {
			for _, ins := range b.Instrs {
				for _, op := range ins.Operands(nil) {
					if g, ok := (*op).(*ssa.Global); ok {
						used[g.Name()] = true
					}
				}
				if ci, ok := ins.(ssa.CallInstruction); ok {
					if callee := ci.Common().StaticCallee(); callee != nil && callee.Pkg == e.w.pkg {
						visit(callee, depth+1)
					}
				}
			}
		}
	}
	visit(fn, 0)
	found := false
	ast.Inspect(c.Expr, func(n ast.Node) bool {
		if id, ok := n.(*ast.Ident); ok && used[id.Name] {
			found = true
		}
		return true
	})
	return found
}

// replacerLemma reads the constant arguments of the strings.NewReplacer call
// that initialises a package-level replacer and states, as a lemma over all
// runes, that the replacement table equals spec_escFirst / spec_escSecond.
func replacerLemma(w *World, rp *ReplacerSpec) (*Lemma, error) {
	initFn := w.pkg.Func("init")
	var pairs [][2]string
	found := false
	for _, b := range initFn.Blocks {
		for _, ins := range b.Instrs {
			st, ok := ins.(*ssa.Store)
			if !ok {
				continue
			}
			g, ok := st.Addr.(*ssa.Global)
			if !ok || g.Name() != rp.Global {
				continue
			}
			call, ok := st.Val.(*ssa.Call)
			if !ok || call.Common().StaticCallee() == nil || call.Common().StaticCallee().String() != "strings.NewReplacer" {
				return nil, fmt.Errorf("%s is not initialised by strings.NewReplacer", rp.Global)
			}
			sl, ok := call.Common().Args[0].(*ssa.Slice)
			if !ok {
				return nil, fmt.Errorf("%s: argument list is not a literal", rp.Global)
			}
			vals := map[int64]string{}
			n := int64(0)
			for _, ref := range *sl.X.Referrers() {
				ia, ok := ref.(*ssa.IndexAddr)
				if !ok {
					continue
				}
				idx, ok := ia.Index.(*ssa.Const)
				if !ok {
					return nil, fmt.Errorf("%s: non-constant index", rp.Global)
				}
				for _, r2 := range *ia.Referrers() {
					if s2, ok := r2.(*ssa.Store); ok {
						c, ok := s2.Val.(*ssa.Const)
						if !ok {
							return nil, fmt.Errorf("%s: non-constant argument", rp.Global)
						}
						vals[idx.Int64()] = constant.StringVal(c.Value)
						if idx.Int64()+1 > n {
							n = idx.Int64() + 1
						}
					}
				}
			}
			if n%2 != 0 || n == 0 {
				return nil, fmt.Errorf("%s: odd argument count", rp.Global)
			}
			for i := int64(0); i < n; i += 2 {
				pairs = append(pairs, [2]string{vals[i], vals[i+1]})
			}
			found = true
		}
	}
	if !found {
		return nil, fmt.Errorf("no initialiser found for %s", rp.Global)
	}
	first, second := "c", "0"
	for i := len(pairs) - 1; i >= 0; i-- {
		o, nw := pairs[i][0], []rune(pairs[i][1])
		if len(o) != 1 || o[0] >= 0x80 || len(nw) < 1 || len(nw) > 2 {
			return nil, fmt.Errorf("%s: pair %q -> %q is outside the modelled shape (one ASCII byte to one or two runes)", rp.Global, pairs[i][0], pairs[i][1])
		}
		s2 := "0"
		if len(nw) == 2 {
			s2 = fmt.Sprint(int(nw[1]))
		}
		first = fmt.Sprintf("ite(c == %d, %d, %s)", o[0], nw[0], first)
		second = fmt.Sprintf("ite(c == %d, %s, %s)", o[0], s2, second)
	}
	txt := fmt.Sprintf("spec_escFirst(%s, c) == %s && spec_escSecond(%s, c) == %s", rp.Quote, first, rp.Quote, second)
	ex, err := parseSpec(txt)
	if err != nil {
		return nil, err
	}
	return &Lemma{Name: "replacer " + rp.Global, Props: rp.Props, Text: fmt.Sprintf("table of %s %v == spec_esc(%s, .): forall c rune :: %s", rp.Global, pairs, rp.Quote, txt),
		Vars: []LemmaVar{{"c", "rune"}}, Expr: ex, File: rp.File, Line: rp.Line}, nil
}

func (e *Enc) isASTType(t types.Type) bool {
	switch u := t.(type) {
	case *types.Pointer:
		if n, ok := u.Elem().(*types.Named); ok && n.Obj().Pkg() != nil && n.Obj().Pkg().Path() == repoPkgPath {
			_, isStruct := n.Underlying().(*types.Struct)
			return isStruct
		}
	case *types.Named:
		if it, ok := u.Underlying().(*types.Interface); ok && u.Obj().Pkg() != nil && u.Obj().Pkg().Path() == repoPkgPath {
			return !e.w.openInterface(it)
		}
	}
	return false
}

func (e *Enc) assumeParamWF(st *State, v Val, t types.Type, fn, pname string) {
	if e.fc == nil || !e.fc.ASTParams {
		return
	}
	switch v.Sh.K {
	case KIface:
		if e.isASTType(t) {
			// Walk hands the INTO target to visitors as a Node even when there is none: a typed-nil *Target
			// is the one typed-nil pointer the package itself puts into an AST interface
			exc := "false"
			if tt := e.w.namedPtrTag("Target"); tt > 0 {
				exc = fmt.Sprintf("(= %s %d)", v.Sub[0].T, tt)
			}
			e.assume(fmt.Sprintf("(=> (and (isptrtype %s) (not %s)) (not (= %s 0)))", v.Sub[0].T, exc, v.Sub[1].T))
			e.usedTypeInvs["parameters of AST interface type hold no typed-nil pointer (except *Target, which Walk passes on when a statement has no INTO clause)"] = true
		}
	case KSlice:
		sl, ok := t.Underlying().(*types.Slice)
		if !ok || !e.isASTType(sl.Elem()) {
			return
		}
		el := sl.Elem()
		base, off, ln := v.Sub[0].T, v.Sub[1].T, v.Sub[2].T
		mk := func(k string) string {
			h := func(suffix string) string {
				hp := e.heap(e.entry, elemPath(el)+suffix, KInt)
				return fmt.Sprintf("(select (select %s %s) (+ %s %s))", hp.Term, base, off, k)
			}
			var body string
			if shapeOf(el).K == KIface {
				body = fmt.Sprintf("(and (not (= %s 0)) (=> (isptrtype %s) (not (= %s 0))))", h("#typ"), h("#typ"), h("#val"))
			} else {
				body = fmt.Sprintf("(not (= %s 0))", h(""))
			}
			return fmt.Sprintf("(=> (and (<= 0 %s) (< %s %s)) %s)", k, k, ln, body)
		}
		e.ctr["qf"]++
		qf := &quantFact{id: e.ctr["qf"], reach: "true", elems: map[string]bool{elemPath(el): true}, inst: mk}
		e.quantFacts = append(e.quantFacts, qf)
		if keepQuantifiers {
			e.assume("(forall ((k!p Int)) " + mk("k!p") + ")")
		}
		e.usedTypeInvs["slice parameters of AST nodes hold no nil element"] = true
	}
}

// verifyNoGlobalWrites: package-level variables are written by initialisers only.
// One obligation per function of the package (decided by the store analysis).
func verifyNoGlobalWrites(w *World, pi *PackageInv) *FuncResult {
	fr := &FuncResult{Name: "packageinv noglobalwrites"}
	e := newEnc(w, nil, nil)
	e.topName = "package"
	e.declare("next0", "Int")
	e.curReach = "true"
	for _, fn := range w.allFuncs {
		name := w.funcName(fn)
		if name == "init" || strings.HasPrefix(name, "init#") || strings.HasPrefix(name, "init$") {
			continue
		}
		var bad []string
		for _, b := range fn.Blocks {
			for _, ins := range b.Instrs {
				switch in := ins.(type) {
				case *ssa.Store:
					if p, _, ok := addrPath(in.Addr); ok && strings.HasPrefix(p, "Global#") {
						bad = append(bad, p)
					}
				case *ssa.MapUpdate:
					if u, ok := in.Map.(*ssa.UnOp); ok {
						if g, ok := u.X.(*ssa.Global); ok {
							bad = append(bad, "Global#"+g.Name()+" (map update)")
						}
					}
				}
				// the address of a package-level variable (or of a part of it) may only be read
				// through: handing it to a call, storing it or boxing it lets other code write it
				for _, op := range ins.Operands(nil) {
					if op == nil || *op == nil {
						continue
					}
					if g := globalRoot(*op); g != nil && g.Pkg == w.pkg && !strings.HasPrefix(g.Name(), "init$") {
						switch x := ins.(type) {
						case *ssa.UnOp:
							if x.Op == token.MUL {
								continue // load
							}
						case *ssa.FieldAddr, *ssa.IndexAddr:
							continue // still an address: judged at its own uses
						case *ssa.Store:
							if x.Addr == *op {
								continue // a store through it is reported above
							}
						case *ssa.DebugRef:
							continue
						}
						bad = append(bad, "Global#"+g.Name()+" (address passed to "+strings.SplitN(ins.String(), "(", 2)[0]+")")
					}
				}
			}
		}
		goal := "true"
		clause := "no store to a package-level variable"
		if len(bad) > 0 {
			goal = "false"
			clause = "stores to " + strings.Join(bad, ", ")
		}
		o := &Obligation{Name: name + "#frame@package-level-state", Kind: "frame", Func: name, Props: pi.Props, At: len(e.lines), Reach: "true", Goal: goal, Clause: clause}
		e.obls = append(e.obls, o)
	}
	fr.Enc, fr.Obls, fr.Lines = e, e.obls, len(e.lines)
	return fr
}

// globalRoot: the package-level variable an address value points into, if any.
func globalRoot(v ssa.Value) *ssa.Global {
	for i := 0; i < 8; i++ {
		switch x := v.(type) {
		case *ssa.Global:
			return x
		case *ssa.FieldAddr:
			v = x.X
		case *ssa.IndexAddr:
			if _, isPtr := x.X.Type().Underlying().(*types.Pointer); !isPtr {
				return nil
			}
			v = x.X
		default:
			return nil
		}
	}
	return nil
}
