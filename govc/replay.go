package main

// Replay: turn a solver model into a run of the real code.
//
// Generic harness for functions whose parameters are scalars (integers,
// booleans, strings, floats are not replayable because F is uninterpreted):
// an in-package test is generated, injected with `go test -overlay` (nothing
// is written into the repository), and
//   - for post-conditions the ensures clause is evaluated in Go on the real
//     result (spec functions are Go functions under the verif tag);
//   - for safety obligations a panic is the reproduction.

import (
	"bytes"
	"context"
	"encoding/json"
	"fmt"
	"go/ast"
	"go/printer"
	"go/token"
	"go/types"
	"os"
	"os/exec"
	"path/filepath"
	"strconv"
	"strings"
	"time"

	"golang.org/x/tools/go/ssa"
)

type specialReplay func(w *World, fr *FuncResult, o *Obligation, rp map[string]interface{}) (bool, string)

var specialReplays = map[string]specialReplay{}

func tryReplay(w *World, fr *FuncResult, o *Obligation, rp map[string]interface{}) (bool, string) {
	if fr.Enc == nil || fr.Enc.top == nil {
		return replayLemma(w, fr, o, rp)
	}
	if sr, ok := specialReplays[fr.Name]; ok {
		if ok2, d := sr(w, fr, o, rp); ok2 || d != "" {
			return ok2, d
		}
	}
	if o.Status != "sat" || len(o.Model) == 0 {
		return false, ""
	}
	fn := fr.Enc.top
	var decls []string
	var argNames []string
	for _, p := range fn.Params {
		lit, ok := goLiteral(p.Type(), "p_"+sanitize(p.Name()), o.Model)
		if !ok {
			return false, "parameter " + p.Name() + " of type " + p.Type().String() + " cannot be built from the model"
		}
		decls = append(decls, fmt.Sprintf("\tvar %s %s = %s\n\t_ = %s", p.Name(), types.TypeString(p.Type(), relQual), lit, p.Name()))
		argNames = append(argNames, p.Name())
	}
	call := ""
	if fn.Signature.Recv() != nil {
		call = fmt.Sprintf("%s.%s(%s)", argNames[0], fn.Name(), strings.Join(argNames[1:], ", "))
	} else {
		call = fmt.Sprintf("%s(%s)", fn.Name(), strings.Join(argNames, ", "))
	}
	names := resultNames(fn)
	var body bytes.Buffer
	imports := "\t\"fmt\"\n\t\"testing\"\n"
	for _, d := range decls {
		if strings.Contains(d, "time.") && !strings.Contains(imports, "\"time\"") {
			imports += "\t\"time\"\n"
		}
	}
	body.WriteString("package influxql\n\nimport (\n" + imports + ")\n\nfunc TestZZVerifReplay(t *testing.T) {\n")
	body.WriteString("\tdefer func() {\n\t\tif r := recover(); r != nil {\n\t\t\tfmt.Println(\"REPLAY-PANIC:\", r)\n\t\t}\n\t}()\n")
	for _, d := range decls {
		body.WriteString(d + "\n")
	}
	if len(names) > 0 {
		body.WriteString("\t" + strings.Join(names, ", ") + " := " + call + "\n")
		for _, n := range names {
			body.WriteString("\t_ = " + n + "\n")
		}
		body.WriteString("\tfmt.Printf(\"REPLAY-RESULT: %v\\n\", []interface{}{" + strings.Join(names, ", ") + "})\n")
	} else {
		body.WriteString("\t" + call + "\n")
	}
	isPost := o.Kind == "post"
	if isPost {
		var cl *Clause
		for _, c := range append(append([]*Clause{}, fr.Enc.fc.Ensures...), fr.Enc.fc.Claims...) {
			if c.Text == o.Clause {
				cl = c
			}
		}
		if cl == nil {
			return false, "clause not found"
		}
		g, ok := goExpr(cl.Expr, names)
		if !ok {
			return false, "ensures clause uses ghost constructs; not evaluable on the real code"
		}
		body.WriteString("\tfmt.Println(\"REPLAY-POST:\", " + g + ")\n")
	}
	body.WriteString("}\n")
	out, err := runOverlayTest(w.repoDir, body.String())
	detail := map[string]interface{}{"test": body.String(), "output": out}
	if err != nil {
		detail["error"] = err.Error()
	}
	b, _ := json.Marshal(detail)
	if isPost {
		if strings.Contains(out, "REPLAY-POST: false") {
			return true, string(b)
		}
		return false, string(b)
	}
	if strings.Contains(out, "REPLAY-PANIC:") {
		return true, string(b)
	}
	return false, string(b)
}

func relQual(p *types.Package) string {
	if p.Path() == repoPkgPath {
		return ""
	}
	return p.Name()
}

// goLiteral builds a Go literal for a scalar parameter from model values.
func goLiteral(t types.Type, base string, model map[string]string) (string, bool) {
	sh := shapeOf(t)
	switch sh.K {
	case KInt:
		if _, ok := t.Underlying().(*types.Basic); !ok {
			return "", false
		}
		v, ok := modelInt(model, base+"!1")
		if !ok {
			return "", false
		}
		return fmt.Sprintf("%s(%s)", types.TypeString(t, relQual), v), true
	case KBool:
		v, ok := model[base+"!1"]
		if !ok {
			return "", false
		}
		return v, true
	case KStr:
		s, ok := modelString(model, base+"!1")
		if !ok {
			return "", false
		}
		return fmt.Sprintf("%s(%s)", types.TypeString(t, relQual), strconv.Quote(s)), true
	}
	return "", false
}

func modelInt(model map[string]string, term string) (string, bool) {
	v, ok := model[term]
	if !ok {
		return "", false
	}
	return smtIntToGo(v)
}

func smtIntToGo(v string) (string, bool) {
	v = strings.TrimSpace(v)
	if strings.HasPrefix(v, "(-") {
		inner := strings.TrimSpace(strings.TrimSuffix(strings.TrimPrefix(v, "(-"), ")"))
		if _, err := strconv.ParseUint(inner, 10, 64); err != nil {
			return "", false
		}
		return "-" + inner, true
	}
	if _, err := strconv.ParseUint(v, 10, 64); err != nil {
		return "", false
	}
	return v, true
}

// modelString rebuilds a string from the rune view (preferred) or byte view probes.
func modelString(model map[string]string, term string) (string, bool) {
	if n, ok := modelInt(model, "(rlen "+term+")"); ok {
		k, _ := strconv.Atoi(n)
		if k >= 0 && k <= 64 {
			var rs []rune
			good := true
			for i := 0; i < k; i++ {
				v, ok := modelInt(model, fmt.Sprintf("(select (runes %s) %d)", term, i))
				if !ok {
					good = false
					break
				}
				r, _ := strconv.Atoi(v)
				rs = append(rs, rune(r))
			}
			if good && k > 0 {
				return string(rs), true
			}
		}
	}
	if n, ok := modelInt(model, "(slen "+term+")"); ok {
		k, _ := strconv.Atoi(n)
		if k >= 0 && k <= 64 {
			var bs []byte
			for i := 0; i < k; i++ {
				v, ok := modelInt(model, fmt.Sprintf("(sat %s %d)", term, i))
				if !ok {
					return "", false
				}
				b, _ := strconv.Atoi(v)
				bs = append(bs, byte(b))
			}
			return string(bs), true
		}
	}
	return "", false
}

// goExpr prints a contract expression as Go, or fails on ghost constructs.
func goExpr(x ast.Expr, resultNames []string) (string, bool) {
	ok := true
	var conv func(x ast.Expr) ast.Expr
	conv = func(x ast.Expr) ast.Expr {
		switch n := x.(type) {
		case *ast.CallExpr:
			if id, isId := n.Fun.(*ast.Ident); isId {
				switch id.Name {
				case "implies__":
					return &ast.ParenExpr{X: &ast.BinaryExpr{X: &ast.UnaryExpr{Op: token.NOT, X: &ast.ParenExpr{X: conv(n.Args[0])}}, Op: token.LOR, Y: &ast.ParenExpr{X: conv(n.Args[1])}}}
				case "iff":
					return &ast.ParenExpr{X: &ast.BinaryExpr{X: &ast.ParenExpr{X: conv(n.Args[0])}, Op: token.EQL, Y: &ast.ParenExpr{X: conv(n.Args[1])}}}
				case "old", "entry", "libcall", "notnil", "mapvalsnonnil", "mapvalstyped", "nth", "dynres", "call", "mkobj", "box", "rscur", "rsin", "rslen", "content", "scat", "srune", "fresh", "ovf", "forall", "exists", "forallint", "istype", "typeis", "smt", "ghost", "ite", "unboxF", "unboxS", "unboxB", "unboxI", "i2f":
					ok = false
					return x
				}
			}
			c := &ast.CallExpr{Fun: n.Fun}
			for _, a := range n.Args {
				c.Args = append(c.Args, conv(a))
			}
			return c
		case *ast.BinaryExpr:
			return &ast.BinaryExpr{X: conv(n.X), Op: n.Op, Y: conv(n.Y)}
		case *ast.UnaryExpr:
			return &ast.UnaryExpr{Op: n.Op, X: conv(n.X)}
		case *ast.ParenExpr:
			return &ast.ParenExpr{X: conv(n.X)}
		case *ast.SelectorExpr:
			if strings.HasSuffix(n.Sel.Name, "__") {
				ok = false
			}
			return &ast.SelectorExpr{X: conv(n.X), Sel: n.Sel}
		case *ast.IndexExpr:
			return &ast.IndexExpr{X: conv(n.X), Index: conv(n.Index)}
		case *ast.Ident:
			if n.Name == "result" && len(resultNames) == 1 {
				return ast.NewIdent(resultNames[0])
			}
			switch n.Name {
			case "MaxInt64":
				return ast.NewIdent("int64(9223372036854775807)")
			case "MinInt64":
				return ast.NewIdent("int64(-9223372036854775808)")
			}
		}
		return x
	}
	y := conv(x)
	if !ok {
		return "", false
	}
	var b bytes.Buffer
	printer.Fprint(&b, token.NewFileSet(), y)
	return b.String(), true
}

// runOverlayTest compiles and runs an in-package test without touching the repository.
func runOverlayTest(repoDir, src string) (string, error) {
	dir, err := os.MkdirTemp("", "govc-replay-")
	if err != nil {
		return "", err
	}
	defer os.RemoveAll(dir)
	tf := filepath.Join(dir, "zz_verif_replay_test.go")
	if err := os.WriteFile(tf, []byte(src), 0o644); err != nil {
		return "", err
	}
	ov := map[string]map[string]string{"Replace": {filepath.Join(repoDir, "zz_verif_replay_test.go"): tf}}
	ob, _ := json.Marshal(ov)
	of := filepath.Join(dir, "overlay.json")
	os.WriteFile(of, ob, 0o644)
	ctx, cancel := context.WithTimeout(context.Background(), 180*time.Second)
	defer cancel()
	cmd := exec.CommandContext(ctx, "go", "test", "-tags", "verif", "-overlay", of, "-vet=off", "-count=1", "-timeout", "60s", "-run", "^TestZZVerifReplay$", "-v", ".")
	cmd.Dir = repoDir
	cmd.Env = append(os.Environ(), "GOFLAGS=-mod=mod", "GOPROXY=off", "GOSUMDB=off", "GOTOOLCHAIN=local")
	out, err := cmd.CombinedOutput()
	return tail(string(out), 6000), err
}

// replayLemma: a refuted lemma over spec functions is replayed by evaluating
// the lemma body in Go on the model's values.
func replayLemma(w *World, fr *FuncResult, o *Obligation, rp map[string]interface{}) (bool, string) {
	if o.Status != "sat" || len(o.Model) == 0 {
		return false, ""
	}
	var lm *Lemma
	for _, l := range w.contracts.Lemmas {
		if "lemma "+l.Name == fr.Name {
			lm = l
		}
	}
	if lm == nil {
		return false, ""
	}
	g, ok := goExpr(lm.Expr, nil)
	if !ok {
		return false, "lemma uses ghost constructs"
	}
	var body bytes.Buffer
	body.WriteString("package influxql\n\nimport (\n\t\"fmt\"\n\t\"testing\"\n)\n\nfunc TestZZVerifReplay(t *testing.T) {\n")
	for _, v := range lm.Vars {
		val, ok := o.Model[v.Name+".0"]
		if !ok {
			// probes are keyed by term; look up by probe name
			for _, p := range o.Probes {
				if p.Name == v.Name+".0" {
					val, ok = o.Model[p.Term]
				}
			}
		}
		if !ok {
			return false, "no model value for " + v.Name
		}
		gv, ok2 := smtIntToGo(val)
		if !ok2 {
			if val == "true" || val == "false" {
				gv = val
			} else {
				return false, "non-scalar lemma variable " + v.Name
			}
		}
		typ := v.Type
		if typ == "Int" {
			typ = "int64"
		}
		body.WriteString(fmt.Sprintf("\tvar %s %s = %s(%s)\n\t_ = %s\n", v.Name, typ, typ, gv, v.Name))
	}
	body.WriteString("\tfmt.Println(\"REPLAY-POST:\", " + g + ")\n}\n")
	out, err := runOverlayTest(w.repoDir, body.String())
	detail := map[string]interface{}{"test": body.String(), "output": out}
	if err != nil {
		detail["error"] = err.Error()
	}
	b, _ := json.Marshal(detail)
	return strings.Contains(out, "REPLAY-POST: false"), string(b)
}

var _ = ssa.GlobalDebug

// probe looks up a named probe value in the model.
func probe(o *Obligation, name string) (string, bool) {
	for _, p := range o.Probes {
		if p.Name == name {
			v, ok := o.Model[p.Term]
			if ok {
				return smtIntToGo(v)
			}
		}
	}
	return "", false
}

func init() {
	specialReplays["ParseDuration"] = replayParseDuration
}

// replayParseDuration: a counterexample to a loop obligation is one iteration
// (d before, component n, unit runes). It is replayed on the real function as
// the text "<d>ns<n><unit>" against exact big-integer arithmetic.
func replayParseDuration(w *World, fr *FuncResult, o *Obligation, rp map[string]interface{}) (bool, string) {
	if o.Status != "sat" || !strings.Contains(o.Name, "loop1") {
		return false, ""
	}
	oldd, ok1 := probe(o, "old.d.0")
	n, ok2 := probe(o, "n.0")
	c1, ok3 := probe(o, "a[i-1].0")
	c2, _ := probe(o, "ite(i >= 2, a[i-2], 0).0")
	if !ok1 || !ok2 || !ok3 {
		return false, "model lacks loop values"
	}
	r1, _ := strconv.Atoi(c1)
	r2, _ := strconv.Atoi(c2)
	var units []string
	units = append(units, string(rune(r1)))
	if r2 > 0 {
		units = append(units, string(rune(r2))+string(rune(r1)))
	}
	var inputs []string
	for _, u := range units {
		if oldd != "0" && !strings.HasPrefix(oldd, "-") {
			inputs = append(inputs, oldd+"ns"+n+u)
		}
		inputs = append(inputs, n+u)
	}
	var body bytes.Buffer
	body.WriteString("package influxql\n\nimport (\n\t\"fmt\"\n\t\"math/big\"\n\t\"testing\"\n)\n\n")
	body.WriteString(`func zzExact(s string) (*big.Int, bool) {
	a := []rune(s)
	sum := new(big.Int)
	i := 0
	for i < len(a) {
		st := i
		for i < len(a) && a[i] >= '0' && a[i] <= '9' {
			i++
		}
		if i == st || i >= len(a) {
			return nil, false
		}
		n, _ := new(big.Int).SetString(string(a[st:i]), 10)
		c1 := rune(0)
		if i+1 < len(a) {
			c1 = a[i+1]
		}
		u := spec_unit(a[i], c1)
		if u == 0 {
			return nil, false
		}
		sum.Add(sum, n.Mul(n, big.NewInt(u)))
		i += spec_unitlen(a[i], c1)
	}
	return sum, true
}

func TestZZVerifReplay(t *testing.T) {
`)
	body.WriteString("\tfor _, s := range []string{")
	for i, in := range inputs {
		if i > 0 {
			body.WriteString(", ")
		}
		body.WriteString(strconv.Quote(in))
	}
	body.WriteString("} {\n")
	body.WriteString(`		d, err := ParseDuration(s)
		exact, valid := zzExact(s)
		if !valid {
			continue
		}
		fits := exact.IsInt64()
		bad := (err == nil && (!fits || exact.Int64() != int64(d))) || (err != nil && fits)
		fmt.Printf("REPLAY-INPUT: %q -> (%d, %v); exact sum %s\n", s, int64(d), err, exact)
		if bad {
			fmt.Println("REPLAY-POST: false")
		}
	}
}
`)
	out, err := runOverlayTest(w.repoDir, body.String())
	detail := map[string]interface{}{"inputs": inputs, "output": out, "oracle": "exact big-integer sum of components using spec_unit"}
	if err != nil {
		detail["error"] = err.Error()
	}
	b, _ := json.Marshal(detail)
	return strings.Contains(out, "REPLAY-POST: false"), string(b)
}
