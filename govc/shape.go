package main

// Shapes: how a Go type is flattened into scalar SMT leaves.
//
//  integers, runes, bytes, enums, pointers, maps, funcs  -> Int
//  bool                                                  -> Bool
//  string                                                -> Str  (opaque sort)
//  float32/64                                            -> F    (opaque sort)
//  time.Time                                             -> Tm   (opaque sort)
//  other library struct values                           -> U    (opaque sort)
//  slice      -> (base Int, off Int, len Int, cap Int)
//  interface  -> (typ Int, val Int)
//  struct     -> one sub-value per field (recursively)
//  [N]T       -> array value: handled only behind pointers (heap) or as Tuple-less SMT array for small value arrays
//  tuple      -> one sub-value per component

import (
	"fmt"
	"go/types"
	"strings"
)

type Kind int

const (
	KInt Kind = iota
	KBool
	KStr
	KFloat
	KTime
	KOpaque
	KSlice
	KIface
	KStruct
	KArray
	KTuple
)

type Shape struct {
	K      Kind
	T      types.Type
	Names  []string // struct field names
	Sub    []*Shape // struct fields / tuple components
	Elem   *Shape   // array element
	N      int64    // array length
	Signed bool
	Bits   int
}

func (k Kind) Sort() string {
	switch k {
	case KInt:
		return "Int"
	case KBool:
		return "Bool"
	case KStr:
		return "Str"
	case KFloat:
		return "F"
	case KTime:
		return "Tm"
	case KOpaque:
		return "U"
	}
	panic("no sort for kind")
}

var shapeCache = map[types.Type]*Shape{}

func isLibStruct(t types.Type) bool {
	n, ok := t.(*types.Named)
	if !ok {
		return false
	}
	if _, ok := n.Underlying().(*types.Struct); !ok {
		return false
	}
	p := n.Obj().Pkg()
	if p != nil && transparentLibStructs[p.Path()+"."+n.Obj().Name()] {
		return false
	}
	return p != nil && p.Path() != repoPkgPath
}

// library structs whose exported fields the package reads directly: modelled
// field by field like the package's own structs (their invariants are trusted
// typeinv clauses in the contract files).
var transparentLibStructs = map[string]bool{"regexp/syntax.Regexp": true}

func typeKey(t types.Type) string {
	return types.TypeString(t, func(p *types.Package) string {
		if p.Path() == repoPkgPath {
			return ""
		}
		return p.Name()
	})
}

func shapeOf(t types.Type) *Shape {
	if s, ok := shapeCache[t]; ok {
		return s
	}
	s := &Shape{T: t}
	shapeCache[t] = s
	if isLibStruct(t) {
		if typeKey(t) == "time.Time" {
			s.K = KTime
		} else {
			s.K = KOpaque
		}
		return s
	}
	switch u := t.Underlying().(type) {
	case *types.Basic:
		info := u.Info()
		switch {
		case info&types.IsBoolean != 0:
			s.K = KBool
		case info&types.IsString != 0:
			s.K = KStr
		case info&types.IsFloat != 0:
			s.K = KFloat
		case info&types.IsInteger != 0:
			s.K = KInt
			s.Signed = info&types.IsUnsigned == 0
			switch u.Kind() {
			case types.Int8, types.Uint8:
				s.Bits = 8
			case types.Int16, types.Uint16:
				s.Bits = 16
			case types.Int32, types.Uint32:
				s.Bits = 32
			default:
				s.Bits = 64
			}
		case u.Kind() == types.UnsafePointer:
			s.K = KInt
		case u.Kind() == types.UntypedNil:
			s.K = KInt
		default:
			s.K = KOpaque // complex etc.
		}
	case *types.Pointer, *types.Map, *types.Chan, *types.Signature:
		s.K = KInt
	case *types.Slice:
		s.K = KSlice
	case *types.Interface:
		s.K = KIface
	case *types.Struct:
		s.K = KStruct
		for i := 0; i < u.NumFields(); i++ {
			s.Names = append(s.Names, u.Field(i).Name())
			s.Sub = append(s.Sub, shapeOf(u.Field(i).Type()))
		}
	case *types.Array:
		s.K = KArray
		s.Elem = shapeOf(u.Elem())
		s.N = u.Len()
	case *types.Tuple:
		s.K = KTuple
		for i := 0; i < u.Len(); i++ {
			s.Sub = append(s.Sub, shapeOf(u.At(i).Type()))
		}
	default:
		s.K = KOpaque
	}
	return s
}

// Val is a symbolic value: a tree of SMT terms following a Shape.
type Val struct {
	Sh  *Shape
	T   string // scalar term (leaf kinds)
	Sub []Val  // slice: base,off,len,cap; iface: typ,val; struct/tuple: fields
	Loc *Loc   // non-nil: an interior pointer known statically (Sh is the pointer's shape, KInt)
	Fn  *FnVal // non-nil: statically known function value / closure / bound method
}

func (v Val) IsLeaf() bool {
	switch v.Sh.K {
	case KInt, KBool, KStr, KFloat, KTime, KOpaque:
		return true
	}
	return false
}

func leaf(sh *Shape, t string) Val { return Val{Sh: sh, T: t} }

var (
	intShape   = &Shape{K: KInt, T: types.Typ[types.Int], Signed: true, Bits: 64}
	boolShape  = &Shape{K: KBool, T: types.Typ[types.Bool]}
	strShape   = &Shape{K: KStr, T: types.Typ[types.String]}
	floatShape = &Shape{K: KFloat, T: types.Typ[types.Float64]}
)

func intVal(t string) Val  { return Val{Sh: intShape, T: t} }
func boolVal(t string) Val { return Val{Sh: boolShape, T: t} }
func strVal(t string) Val  { return Val{Sh: strShape, T: t} }

// leaves enumerates the scalar leaves of a shape with a path suffix for each.
type leafInfo struct {
	Path string // e.g. ".pos.Line", "#len"
	K    Kind
	Sh   *Shape
}

func leavesOf(sh *Shape) []leafInfo {
	var out []leafInfo
	var rec func(sh *Shape, p string)
	rec = func(sh *Shape, p string) {
		switch sh.K {
		case KSlice:
			for _, c := range []string{"#base", "#off", "#len", "#cap"} {
				out = append(out, leafInfo{p + c, KInt, intShape})
			}
		case KIface:
			out = append(out, leafInfo{p + "#typ", KInt, intShape}, leafInfo{p + "#val", KInt, intShape})
		case KStruct, KTuple:
			for i, s := range sh.Sub {
				n := fmt.Sprintf("%d", i)
				if sh.K == KStruct {
					n = sh.Names[i]
				}
				rec(s, p+"."+n)
			}
		case KArray:
			panic("array value leaves not supported: " + sh.T.String())
		default:
			out = append(out, leafInfo{p, sh.K, sh})
		}
	}
	rec(sh, "")
	return out
}

// flatten returns the leaf terms of v in leavesOf order.
func flatten(v Val) []string {
	var out []string
	var rec func(v Val)
	rec = func(v Val) {
		if v.IsLeaf() {
			out = append(out, v.T)
			return
		}
		for _, s := range v.Sub {
			rec(s)
		}
	}
	rec(v)
	return out
}

// build reconstructs a Val of shape sh from leaf terms (consumes from *ts).
func build(sh *Shape, ts *[]string) Val {
	switch sh.K {
	case KSlice:
		v := Val{Sh: sh}
		for i := 0; i < 4; i++ {
			v.Sub = append(v.Sub, intVal((*ts)[0]))
			*ts = (*ts)[1:]
		}
		return v
	case KIface:
		v := Val{Sh: sh}
		for i := 0; i < 2; i++ {
			v.Sub = append(v.Sub, intVal((*ts)[0]))
			*ts = (*ts)[1:]
		}
		return v
	case KStruct, KTuple:
		v := Val{Sh: sh}
		for _, s := range sh.Sub {
			v.Sub = append(v.Sub, build(s, ts))
		}
		return v
	case KArray:
		panic("array value build not supported")
	}
	t := (*ts)[0]
	*ts = (*ts)[1:]
	return Val{Sh: sh, T: t}
}

func hasArray(sh *Shape) bool {
	switch sh.K {
	case KArray:
		return true
	case KStruct, KTuple:
		for _, s := range sh.Sub {
			if hasArray(s) {
				return true
			}
		}
	}
	return false
}

// zeroVal builds the Go zero value of a shape.
func zeroVal(sh *Shape) Val {
	switch sh.K {
	case KInt:
		return Val{Sh: sh, T: "0"}
	case KBool:
		return Val{Sh: sh, T: "false"}
	case KStr:
		return Val{Sh: sh, T: "str_empty"}
	case KFloat:
		return Val{Sh: sh, T: "f_zero"}
	case KTime:
		return Val{Sh: sh, T: "tm_zero"}
	case KOpaque:
		return Val{Sh: sh, T: "u_zero"}
	case KSlice:
		return Val{Sh: sh, Sub: []Val{intVal("0"), intVal("0"), intVal("0"), intVal("0")}}
	case KIface:
		return Val{Sh: sh, Sub: []Val{intVal("0"), intVal("0")}}
	case KStruct, KTuple:
		v := Val{Sh: sh}
		for _, s := range sh.Sub {
			v.Sub = append(v.Sub, zeroVal(s))
		}
		return v
	}
	panic("zeroVal: " + sh.T.String())
}

func sanitize(s string) string {
	r := strings.NewReplacer("*", "P", "(", "_", ")", "_", ".", "_", "$", "_", " ", "_", "[", "_", "]", "_", ",", "_", "/", "_", "{", "_", "}", "_", ";", "_", "#", "_", "-", "_")
	return r.Replace(s)
}
