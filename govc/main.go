package main

import (
	"encoding/json"
	"os/exec"
	"flag"
	"fmt"
	"os"
	"path/filepath"
	"runtime"
	"sort"
	"strconv"
	"strings"
	"sync"
	"time"

	"golang.org/x/tools/go/ssa"
)

var verifDir = "/verif"

func main() {
	if len(os.Args) < 2 {
		fmt.Fprintln(os.Stderr, "usage: govc check <prop> [quick|thorough] | dump <func> | list")
		os.Exit(2)
	}
	if d := os.Getenv("VERIF_DIR"); d != "" {
		verifDir = d
	}
	repo := os.Getenv("VERIF_REPO")
	if repo == "" {
		repo = "/repo"
	}
	switch os.Args[1] {
	case "check":
		fs := flag.NewFlagSet("check", flag.ExitOnError)
		keep := fs.Bool("keep", false, "keep SMT files")
		only := fs.String("only", "", "only functions whose name contains this")
		noEvidence := fs.Bool("no-evidence", false, "do not write the evidence file")
		fs.Parse(os.Args[2:])
		if fs.NArg() < 1 {
			fmt.Fprintln(os.Stderr, "usage: govc check [-keep] <prop> [quick|thorough]")
			os.Exit(2)
		}
		tier := "quick"
		if fs.NArg() > 1 {
			tier = fs.Arg(1)
		}
		os.Exit(runCheck(repo, fs.Arg(0), tier, *keep, *only, *noEvidence))
	case "dump":
		w, err := loadWorld(repo)
		if err != nil {
			fmt.Fprintln(os.Stderr, err)
			os.Exit(2)
		}
		fn := w.lookupFunc(os.Args[2])
		if fn == nil {
			fmt.Fprintln(os.Stderr, "no such function; known:")
			for _, f := range w.allFuncs {
				if strings.Contains(w.funcName(f), os.Args[2]) {
					fmt.Fprintln(os.Stderr, "  ", w.funcName(f))
				}
			}
			os.Exit(2)
		}
		fn.WriteTo(os.Stdout)
		if len(os.Args) > 3 && os.Args[3] == "smt" {
			fr := verifyFunc(w, fn, w.contracts.Funcs[w.funcName(fn)])
			if fr.Err != "" {
				fmt.Println("ERROR:", fr.Err)
				return
			}
			fmt.Println(fr.Enc.incrementalScript(10000))
			for _, o := range fr.Obls {
				fmt.Printf(";; %s  [%s] %v\n", o.Name, o.Pos, o.Props)
			}
		}
		if len(os.Args) > 3 && os.Args[3] == "mods" {
			m, top := w.modSetOf(fn, nil, nil)
			mi := w.modInfoOf(fn, map[*ssa.Function]bool{})
			fmt.Println("top:", top, "own top:", mi.top, "dynParams:", mi.dynParams)
			for _, c := range mi.callees {
				tmp := &modInfo{names: map[string]bool{}, dynParams: map[int]bool{}}
				w.calleeEffect(fn, c, tmp, map[*ssa.Function]bool{})
				if tmp.top {
					fmt.Println("  top from:", c.String())
				}
			}
			for _, n := range heapNames(m) {
				fmt.Println("  ", n)
			}
		}
	case "implicit":
		w, err := loadWorld(repo)
		if err != nil {
			fmt.Fprintln(os.Stderr, "govc:", err)
			os.Exit(2)
		}
		for _, n := range w.implicit {
			fn := w.lookupFunc(n)
			fmt.Printf("%s\t%s\n", n, filepath.Base(w.fset.Position(fn.Pos()).Filename))
		}
	case "locals":
		// prints the snapshot lines for verif_locals.go: one per function under contract that has locals
		w, err := loadWorld(repo)
		if err != nil {
			fmt.Fprintln(os.Stderr, err)
			os.Exit(2)
		}
		for _, name := range w.contracts.Order {
			fc := w.contracts.Funcs[name]
			if fc.FnType != "" || fc.Skip != "" {
				continue
			}
			fn := w.lookupFunc(name)
			if fn == nil {
				continue
			}
			if ls := w.localsOf(fn); len(ls) > 0 {
				fmt.Printf("//@ locals %s : %s\n", name, strings.Join(ls, " "))
			}
		}
	case "closures":
		w, err := loadWorld(repo)
		if err != nil {
			fmt.Fprintln(os.Stderr, err)
			os.Exit(2)
		}
		for _, fn := range w.allFuncs {
			if fn.Parent() != nil {
				fmt.Printf("%s\t%s\n", w.funcName(fn), filepath.Base(w.fset.Position(fn.Pos()).Filename))
			}
		}
	case "inlinable":
		w, err := loadWorld(repo)
		if err != nil {
			fmt.Fprintln(os.Stderr, err)
			os.Exit(2)
		}
		for _, fn := range w.allFuncs {
			if w.canInline(fn) {
				fmt.Println(w.funcName(fn))
			}
		}
	case "list":
		w, err := loadWorld(repo)
		if err != nil {
			fmt.Fprintln(os.Stderr, err)
			os.Exit(2)
		}
		for _, n := range w.contracts.Order {
			fc := w.contracts.Funcs[n]
			fmt.Printf("%-60s props=%v safety=%v\n", n, fc.Props, fc.SafetyProps)
		}
		for _, l := range w.contracts.Lemmas {
			fmt.Printf("lemma %-54s props=%v\n", l.Name, l.Props)
		}
	default:
		fmt.Fprintln(os.Stderr, "unknown command")
		os.Exit(2)
	}
}

type KnownFinding struct {
	Property   string `json:"property"`
	Obligation string `json:"obligation"`
	Witness    string `json:"witness"`
	What       string `json:"what"`
}

type KnownFindings struct {
	Findings []KnownFinding `json:"findings"`
	Fixed    []string       `json:"fixed"`
}

func loadKnown() KnownFindings {
	var k KnownFindings
	data, err := os.ReadFile(filepath.Join(verifDir, "known_findings.json"))
	if err == nil {
		json.Unmarshal(data, &k)
	}
	return k
}

func clauseInvolves(fc *FuncContract, prop string) bool {
	if hasProp(fc.Props, prop) || hasProp(fc.SafetyProps, prop) || hasProp(fc.FrameProps, prop) {
		return true
	}
	all := append(append([]*Clause{}, fc.Requires...), fc.Ensures...)
	all = append(all, fc.Claims...)
	for _, l := range fc.Loops {
		all = append(all, l...)
	}
	for _, c := range all {
		if hasProp(c.Props, prop) {
			return true
		}
	}
	return false
}

func runCheck(repo, prop, tier string, keep bool, only string, noEvidence bool) int {
	t0 := time.Now()
	seed := 0
	if s := os.Getenv("VERIF_SEED"); s != "" {
		seed, _ = strconv.Atoi(s)
	}
	w, err := loadWorld(repo)
	if err != nil {
		fmt.Fprintln(os.Stderr, "govc: cannot load package:", err)
		// the tree does not compile with hooks on: not a property verdict
		return 2
	}
	loadSecs := time.Since(t0).Seconds()
	cfg := SolverCfg{Timeout: 10 * time.Second, WorkDir: filepath.Join(verifDir, "work", prop), KeepFiles: keep}
	if tier == "thorough" {
		cfg.Timeout = 60 * time.Second
		cfg.Confirm = true
	}
	if keep {
		os.MkdirAll(cfg.WorkDir, 0o755)
	}
	// functions and lemmas that belong to the property
	var results []*FuncResult
	var missing []string
	var skipped []string
	for _, name := range w.contracts.Order {
		fc := w.contracts.Funcs[name]
		if !clauseInvolves(fc, prop) || fc.Trusted {
			continue
		}
		if fc.Skip != "" {
			skipped = append(skipped, name+": "+fc.Skip)
			continue
		}
		if fc.Inline && !fc.ASTParams && len(fc.Requires)+len(fc.Ensures)+len(fc.Claims) == 0 {
			continue // hand-marked inline helper: verified where it is inlined
		}
		if only != "" && !strings.Contains(name, only) {
			continue
		}
		if fc.FnType != "" {
			// every function value of this signature must satisfy the contract
			for _, cand := range w.fnValuesOfType(fc.FnType) {
				if only != "" && !strings.Contains(w.funcName(cand), only) {
					continue
				}
				results = append(results, verifyFunc(w, cand, fnTypeInstance(fc, cand)))
			}
			continue
		}
		fn := w.lookupFunc(name)
		if fn == nil {
			missing = append(missing, name)
			continue
		}
		results = append(results, verifyFunc(w, fn, fc))
	}
	for _, lm := range w.contracts.Lemmas {
		if !hasProp(lm.Props, prop) {
			continue
		}
		if only != "" && !strings.Contains(lm.Name, only) {
			continue
		}
		results = append(results, verifyLemma(w, lm))
	}
	for _, pi := range w.contracts.PackageInvs {
		if hasProp(pi.Props, prop) && only == "" && pi.Kind == "noglobalwrites" {
			results = append(results, verifyNoGlobalWrites(w, pi))
		}
	}
	for _, rp := range w.contracts.Replacers {
		if !hasProp(rp.Props, prop) || (only != "" && !strings.Contains(rp.Global, only)) {
			continue
		}
		lm, err := replacerLemma(w, rp)
		if err != nil {
			results = append(results, &FuncResult{Name: "lemma replacer " + rp.Global, Err: "out of subset: " + err.Error()})
			continue
		}
		w.contracts.Lemmas = append(w.contracts.Lemmas, lm)
		results = append(results, verifyLemma(w, lm))
	}
	encSecs := time.Since(t0).Seconds() - loadSecs
	// keep only obligations of this property
	for _, fr := range results {
		if fr.Enc == nil {
			continue
		}
		var mine []*Obligation
		for _, o := range fr.Enc.obls {
			if hasProp(o.Props, prop) {
				mine = append(mine, o)
			}
		}
		if tier == "thorough" {
			for _, o := range fr.Enc.covers {
				if hasProp(o.Props, prop) {
					mine = append(mine, o)
				}
			}
		}
		fr.Enc.obls = mine
		fr.Obls = mine
	}
	// solve in parallel
	var wg sync.WaitGroup
	sem := make(chan struct{}, runtime.NumCPU())
	for _, fr := range results {
		wg.Add(1)
		sem <- struct{}{}
		go func(fr *FuncResult) {
			defer wg.Done()
			defer func() { <-sem }()
			solveFunc(fr, cfg)
		}(fr)
	}
	wg.Wait()
	// quiet retry: an obligation that only timed out while all cores were busy is
	// raced again, two at a time, with three times the budget. A timeout is never
	// reported as a violation on the strength of one loaded run.
	{
		rcfg := cfg
		rcfg.Timeout = 3 * cfg.Timeout
		rsem := make(chan struct{}, 2)
		var rwg sync.WaitGroup
		for _, fr := range results {
			if fr.Enc == nil {
				continue
			}
			for _, o := range fr.Obls {
				if o.Cover || (o.Status != "timeout" && o.Status != "unknown") {
					continue
				}
				rwg.Add(1)
				rsem <- struct{}{}
				go func(fr *FuncResult, o *Obligation) {
					defer rwg.Done()
					defer func() { <-rsem }()
					raceStandalone(fr.Enc, o, rcfg, "")
					if o.Status == "unsat" {
						o.Solver += "+retry"
					}
				}(fr, o)
			}
		}
		rwg.Wait()
	}
	// last resort for obligations that timed out twice (a machine shared with other checks): one at a
	// time, six times the budget, at most five minutes in all
	{
		lcfg := cfg
		lcfg.Timeout = 6 * cfg.Timeout
		start := time.Now()
		for _, fr := range results {
			if fr.Enc == nil {
				continue
			}
			for _, o := range fr.Obls {
				if o.Cover || o.Status != "timeout" || time.Since(start) > 5*time.Minute {
					continue
				}
				raceStandalone(fr.Enc, o, lcfg, "")
				if o.Status == "unsat" {
					o.Solver += "+retry2"
				}
			}
		}
	}

	known := loadKnown()
	isKnown := func(name string) *KnownFinding {
		for i := range known.Findings {
			k := &known.Findings[i]
			if k.Property == prop && k.Obligation == name {
				return k
			}
		}
		return nil
	}
	// report
	total, discharged, covers, coverFail := 0, 0, 0, 0
	byBackend := map[string]int{}
	solverSecs := 0.0
	var samples []map[string]interface{}
	var violations []string
	var knownLines []string
	var funcsUnder []string
	var undecided []string
	havoc := 0
	inconsistent := 0
	usedLib := map[string]bool{}
	usedCtr := map[string]bool{}
	var assumed []string
	for _, sk := range skipped {
		assumed = append(assumed, "function deliberately not under contract (callers treat it as unknown code bounded by its computed write set; nothing is proved about its body): "+sk)
	}
	for _, n := range w.implicit {
		assumed = append(assumed, "function without a written contract: verified against the default sweep contract generated on this run: "+n)
	}
	exit := 0
	os.MkdirAll(filepath.Join(verifDir, "replay"), 0o755)
	for _, name := range missing {
		// contract names a function that no longer exists
		path := writeReplay(prop, name+"#resolve", map[string]interface{}{"obligation": name + "#resolve", "reason": "contract refers to a function that does not exist in the current tree"})
		violations = append(violations, fmt.Sprintf("VIOLATION property=%s replay=%s no-failing-input-found", prop, path))
	}
	for _, fr := range results {
		if fr.Err != "" {
			oname := fr.Name + "#encode"
			if k := isKnown(oname); k != nil {
				knownLines = append(knownLines, fmt.Sprintf("KNOWN-FINDING: property=%s %s %s", prop, oname, k.What))
				continue
			}
			path := writeReplay(prop, oname, map[string]interface{}{"obligation": oname, "reason": fr.Err})
			violations = append(violations, fmt.Sprintf("VIOLATION property=%s replay=%s no-failing-input-found", prop, path))
			fmt.Fprintf(os.Stderr, "govc: %s: %s\n", fr.Name, firstLine(fr.Err))
			continue
		}
		funcsUnder = append(funcsUnder, fr.Name)
		if os.Getenv("GOVC_NOTES") != "" && len(fr.HavocNotes) > 0 {
			fmt.Fprintf(os.Stderr, "notes %s: %v\n", fr.Name, fr.HavocNotes)
		}
		if fr.Consistency == "unsat" {
			// contradictory assumptions: every obligation of this function is vacuous
			fmt.Printf("ERROR inconsistent-assumptions: %s (contracts, type invariants or library models contradict each other; nothing proved about this function is believed)\n", fr.Name)
			inconsistent++
			oname := fr.Name + "#inconsistent-assumptions"
			path := writeReplay(prop, oname, map[string]interface{}{"property": prop, "obligation": oname, "kind": "vacuity", "reason": "the assumptions of this function (contracts of callees, type invariants, library models, its own requires) are contradictory on the current tree: every obligation of the function passes vacuously, so nothing is decided"})
			violations = append(violations, fmt.Sprintf("VIOLATION property=%s replay=%s no-failing-input-found", prop, path))
		}
		for _, v := range fr.VacuousAt {
			fmt.Printf("ERROR vacuous-path: %s is at a program point that the accumulated assumptions make unreachable (a contract, invariant or library model is contradictory on this path)\n", v)
			inconsistent++
		}
		if len(fr.VacuousAt) > 0 {
			oname := fr.Name + "#vacuous-path"
			path := writeReplay(prop, oname, map[string]interface{}{"property": prop, "obligation": oname, "kind": "vacuity", "reason": "obligations of this function sit at program points that the accumulated assumptions make unreachable on the current tree (the code no longer agrees with a contract, invariant or library model it is verified against): they pass vacuously, so nothing is decided", "obligations": fr.VacuousAt})
			violations = append(violations, fmt.Sprintf("VIOLATION property=%s replay=%s no-failing-input-found", prop, path))
		}
		havoc += fr.HavocSites
		for _, l := range fr.UsedLib {
			usedLib[l] = true
		}
		for _, c := range fr.UsedCtr {
			usedCtr[c] = true
		}
		assumed = append(assumed, fr.Enc.assumed...)
		for r := range fr.Enc.renamesUsed {
			assumed = append(assumed, "contract clause read through the locals snapshot (pure rename of a local variable since the contracts were written): "+r)
		}
		for _, o := range fr.Obls {
			solverSecs += o.Secs
			if o.Cover {
				covers++
				if o.Status != "sat" {
					coverFail++
					fmt.Printf("WARNING vacuous: %s (%s): %s\n", o.Name, o.Clause, o.Status)
				}
				continue
			}
			if o.Status == "unsat" {
				total++
				discharged++
				byBackend[o.Solver]++
				if len(samples) < 6 {
					samples = append(samples, map[string]interface{}{"obligation": o.Name, "kind": o.Kind, "clause": o.Clause, "at": o.Pos, "solver": o.Solver, "script_lines": o.At})
				}
				continue
			}
			if k := isKnown(o.Name); k != nil {
				knownLines = append(knownLines, fmt.Sprintf("KNOWN-FINDING: property=%s %s %s (witness: %s)", prop, o.Name, k.What, k.Witness))
				continue
			}
			total++
			undecided = append(undecided, o.Name)
			rp := map[string]interface{}{"property": prop, "obligation": o.Name, "kind": o.Kind, "clause": o.Clause, "at": o.Pos, "status": o.Status, "solver": o.Solver, "solver_output": o.Output, "model": o.Model}
			suffix := " no-failing-input-found"
			if ok, detail := tryReplay(w, fr, o, rp); ok {
				suffix = ""
				rp["replay"] = detail
			} else if detail != "" {
				rp["replay_attempt"] = detail
			}
			path := writeReplay(prop, o.Name, rp)
			violations = append(violations, fmt.Sprintf("VIOLATION property=%s replay=%s%s", prop, path, suffix))
			fmt.Fprintf(os.Stderr, "govc: undischarged %s [%s] %s: %s\n", o.Name, o.Pos, o.Status, o.Clause)
		}
	}
	// bounded stand-ins (labelled, never counted as proved): /verif/bounded/<prop>_*_test.go
	bounded := runBounded(repo, prop, isKnown, &knownLines, &violations)
	sort.Strings(funcsUnder)
	for _, l := range knownLines {
		fmt.Println(l)
	}
	for _, v := range violations {
		fmt.Println(v)
		exit = 1
	}
	if inconsistent > 0 && exit == 0 {
		exit = 2
	}
	if total == 0 && len(violations) == 0 {
		fmt.Fprintf(os.Stderr, "govc: property %s generated no obligations (vacuous check)\n", prop)
		exit = 2
	}
	wall := time.Since(t0).Seconds()
	fmt.Printf("govc %s %s: %d obligations, %d discharged, %d known findings, %d violations, %d covers (%d vacuous), %d functions, load %.1fs encode %.1fs total %.1fs\n",
		prop, tier, total, discharged, len(knownLines), len(violations), covers, coverFail, len(funcsUnder), loadSecs, encSecs, wall)
	if !noEvidence {
		var libs, ctrs []string
		for l := range usedLib {
			libs = append(libs, l)
		}
		for c := range usedCtr {
			ctrs = append(ctrs, c)
		}
		sort.Strings(libs)
		sort.Strings(ctrs)
		writeEvidence(prop, tier, seed, wall, total, discharged, byBackend, solverSecs, samples, funcsUnder, knownLines, undecided, havoc, libs, ctrs, assumed, covers, coverFail, len(violations), bounded)
	}
	return exit
}

func firstLine(s string) string {
	if i := strings.Index(s, "\n"); i >= 0 {
		return s[:i]
	}
	return s
}

func writeReplay(prop, oname string, data map[string]interface{}) string {
	path := filepath.Join(verifDir, "replay", prop+"-"+sanitize(oname)+".json")
	b, _ := json.MarshalIndent(data, "", " ")
	os.WriteFile(path, b, 0o644)
	return path
}

var _ = ssa.GlobalDebug

// fnTypeInstance: the fntype contract with the candidate's own parameter names.
func fnTypeInstance(fc *FuncContract, fn *ssa.Function) *FuncContract {
	c := *fc
	c.Vars = map[string]string{}
	for k, v := range fc.Vars {
		c.Vars[k] = v
	}
	for i, n := range fc.ParamNames {
		if i < len(fn.Params) && fn.Params[i].Name() != n {
			c.Vars[n] = fn.Params[i].Name()
		}
	}
	c.FnType = ""
	return &c
}

// runBounded runs the bounded stand-in harnesses of a property: in-package Go
// tests injected with -overlay that print
//   BOUNDED-COUNT: generated=<n> accepted=<m>
//   BOUNDED-FAIL: <class> count=<k> first=<input -> output>
func runBounded(repo, prop string, isKnown func(string) *KnownFinding, knownLines, violations *[]string) []map[string]interface{} {
	files, _ := filepath.Glob(filepath.Join(verifDir, "bounded", strings.ToLower(prop)+"_*_test.go"))
	var out []map[string]interface{}
	for _, f := range files {
		dir, err := os.MkdirTemp("", "govc-bounded-")
		if err != nil {
			continue
		}
		ov := map[string]map[string]string{"Replace": {filepath.Join(repo, "zz_bounded_"+filepath.Base(f)): f}}
		ob, _ := json.Marshal(ov)
		of := filepath.Join(dir, "overlay.json")
		os.WriteFile(of, ob, 0o644)
		cmd := exec.Command("go", "test", "-tags", "verif", "-overlay", of, "-vet=off", "-count=1", "-timeout", "300s", "-run", "^TestZZBounded"+prop+"$", "-v", ".")
		cmd.Dir = repo
		cmd.Env = append(os.Environ(), "GOFLAGS=-mod=mod", "GOPROXY=off", "GOSUMDB=off", "GOTOOLCHAIN=local")
		outb, _ := cmd.CombinedOutput()
		os.RemoveAll(dir)
		text := string(outb)
		rec := map[string]interface{}{"harness": filepath.Base(f), "label": "bounded (not a proof)"}
		ran := false
		for _, line := range strings.Split(text, "\n") {
			if strings.HasPrefix(line, "BOUNDED-COUNT:") {
				rec["count"] = strings.TrimSpace(strings.TrimPrefix(line, "BOUNDED-COUNT:"))
				ran = true
			}
			if strings.HasPrefix(line, "BOUNDED-BOUND:") {
				rec["bound"] = strings.TrimSpace(strings.TrimPrefix(line, "BOUNDED-BOUND:"))
			}
			if strings.HasPrefix(line, "BOUNDED-FAIL:") {
				rest := strings.TrimSpace(strings.TrimPrefix(line, "BOUNDED-FAIL:"))
				class, _ := splitWord(rest)
				oname := "bounded:" + strings.TrimSuffix(filepath.Base(f), "_test.go") + "/" + class
				if k := isKnown(oname); k != nil {
					*knownLines = append(*knownLines, fmt.Sprintf("KNOWN-FINDING: property=%s %s %s (witness: %s)", prop, oname, k.What, k.Witness))
					continue
				}
				path := writeReplay(prop, oname, map[string]interface{}{"property": prop, "obligation": oname, "kind": "bounded", "failing_case": rest, "harness": f})
				*violations = append(*violations, fmt.Sprintf("VIOLATION property=%s replay=%s", prop, path))
			}
		}
		if !ran {
			// the harness did not run (does not compile against the changed tree, or crashed)
			path := writeReplay(prop, "bounded:"+filepath.Base(f)+"#run", map[string]interface{}{"property": prop, "obligation": "bounded harness did not run", "output": tail(text, 3000)})
			*violations = append(*violations, fmt.Sprintf("VIOLATION property=%s replay=%s no-failing-input-found", prop, path))
		}
		out = append(out, rec)
	}
	return out
}
