package main

// Trusted models of the standard library. Every entry is an assumption and is
// reported in evidence under trusted_base / assumptions. Functions that are
// not listed get a havoc'd result and are assumed not to write memory that is
// visible to the package (their arguments included), except those in
// libWritesArgs, which make the engine give up on the function under analysis.

import (
	"fmt"
	"go/types"
	"strings"

	"golang.org/x/tools/go/ssa"
)

type libModel func(e *Enc, f *frame, st *State, in *ssa.Call, args []Val, resShape *Shape) Val

var libModels map[string]libModel

type invokeModel func(e *Enc, f *frame, st *State, in *ssa.Call, recv Val, args []Val, resShape *Shape) Val

var libInvoke map[string]invokeModel

// pure library functions: modelled as uninterpreted functions of their scalar
// arguments (deterministic, no effects).
var libPure = map[string]bool{
	"strings.ToLower": true, "strings.ToUpper": true, "strings.TrimPrefix": true, "strings.TrimSuffix": true,
	"strings.TrimSpace": true, "strings.HasPrefix": true, "strings.HasSuffix": true, "strings.Contains": true,
	"strings.Index": true, "strings.IndexByte": true, "strings.IndexRune": true, "strings.EqualFold": true,
	"strings.Repeat": true, "strings.Replace": true, "strings.ReplaceAll": true, "strings.Title": true,
	"strings.Compare": true, "strings.Count": true, "strings.LastIndex": true, "strings.Trim": true,
	"strconv.FormatInt": true, "strconv.FormatUint": true, "strconv.FormatFloat": true, "strconv.Itoa": true,
	"strconv.FormatBool": true, "strconv.Quote": true,
	"math.Mod": true, "math.Abs": true, "math.Floor": true, "math.Ceil": true, "math.Trunc": true, "math.IsNaN": true,
	"math.IsInf": true, "math.Pow": true, "math.Sqrt": true, "math.Float64bits": true, "math.Float64frombits": true,
	"math.Inf": true, "math.NaN": true, "math.Max": true, "math.Min": true,
	"unicode.IsLetter": true, "unicode.IsDigit": true, "unicode.IsSpace": true, "unicode.IsUpper": true, "unicode.ToLower": true,
	"unicode/utf8.RuneLen": true, "unicode/utf8.RuneCountInString": true, "unicode/utf8.ValidString": true,
	"(time.Time).IsZero": true, "(time.Time).UnixNano": true, "(time.Time).Unix": true, "(time.Time).UTC": true,
	"(time.Time).Before": true, "(time.Time).After": true, "(time.Time).Equal": true, "(time.Time).Add": true,
	"(time.Time).Sub": true, "(time.Time).In": true, "(time.Time).Format": true, "(time.Time).Truncate": true,
	"(time.Time).Nanosecond": true, "(time.Time).Location": true, "(time.Time).String": true,
	"time.Unix": true, "(time.Duration).String": true, "(time.Duration).Nanoseconds": true, "(time.Duration).Seconds": true,
	"(*regexp.Regexp).String": true, "(*regexp.Regexp).MatchString": true,
	"(*strings.Replacer).Replace": true,
	"(*time.Location).String": true,
	"(encoding/json.Number).Int64": true, "(encoding/json.Number).Float64": true, "(encoding/json.Number).String": true,
}

// library functions that write through their arguments or call back into the
// package: no model, the function under analysis is reported out of subset.
var libWritesArgs = map[string]bool{
	"sort.Sort": true, "sort.Stable": true, "sort.Slice": true, "sort.Strings": true, "sort.Ints": true,
	"encoding/json.Unmarshal": true, "io.ReadFull": true,
}

func init() {
	heapSorts["Lib#content"] = "(Array Int Str)"
	heapSorts["Lib#rscur"] = "(Array Int Int)"
	libModels = map[string]libModel{
		"errors.New":        modelNewError,
		"(*regexp.Regexp).FindAllStringSubmatchIndex": modelFindAllSubmatchIndex,
		"regexp.MustCompile": func(e *Enc, f *frame, st *State, in *ssa.Call, args []Val, rs *Shape) Val {
			r := e.alloc(st)
			return Val{Sh: rs, T: r}
		},
		"fmt.Errorf":        modelNewError,
		// regexp/syntax: a successful Parse and every Simplify return a (new or existing) tree, never nil (trusted)
		"regexp/syntax.Parse": func(e *Enc, f *frame, st *State, in *ssa.Call, args []Val, rs *Shape) Val {
			res := e.freshVal(rs, f.prefix+in.Name())
			nn := e.fresh("next", "Int")
			e.assume(fmt.Sprintf("(> %s %s)", nn, st.next))
			st.next = nn
			e.assumeLoaded(st, res)
			e.assume(fmt.Sprintf("(=> (= %s 0) (not (= %s 0)))", res.Sub[1].Sub[0].T, res.Sub[0].T))
			e.assumeLibInv(st, res.Sub[0], in.Call.Value.(*ssa.Function).Signature.Results().At(0).Type().(*types.Pointer).Elem())
			return res
		},
		"(*regexp/syntax.Regexp).Simplify": func(e *Enc, f *frame, st *State, in *ssa.Call, args []Val, rs *Shape) Val {
			res := e.freshVal(rs, f.prefix+in.Name())
			nn := e.fresh("next", "Int")
			e.assume(fmt.Sprintf("(> %s %s)", nn, st.next))
			st.next = nn
			e.assumeLoaded(st, res)
			e.assume(fmt.Sprintf("(not (= %s 0))", res.T))
			e.assumeLibInv(st, res, in.Call.Value.(*ssa.Function).Signature.Results().At(0).Type().(*types.Pointer).Elem())
			return res
		},
		// bufio: NewReader returns a new stream object positioned at its first rune; the
		// static ReadRune/UnreadRune calls on it follow the rune-stream model below
		"bufio.NewReader": func(e *Enc, f *frame, st *State, in *ssa.Call, args []Val, rs *Shape) Val {
			e.rsDecls()
			r := e.alloc(st)
			h := e.rsHeap(st)
			n := &Heap{Name: h.Name, Sort: h.Sort, Prev: h}
			n.Term = e.define("H_Lib_rscur", h.Sort, fmt.Sprintf("(store %s %s 0)", h.Term, r))
			st.heaps[h.Name] = n
			return Val{Sh: rs, T: r}
		},
		"(*bufio.Reader).ReadRune": func(e *Enc, f *frame, st *State, in *ssa.Call, args []Val, rs *Shape) Val {
			return modelReadRune(e, f, st, in, Val{Sub: []Val{{}, args[0]}}, args[1:], rs)
		},
		"(*bufio.Reader).UnreadRune": func(e *Enc, f *frame, st *State, in *ssa.Call, args []Val, rs *Shape) Val {
			return modelUnreadRune(e, f, st, in, Val{Sub: []Val{{}, args[0]}}, args[1:], rs)
		},
		"fmt.Sprintf":       modelSprintf,
		"fmt.Sprint":        modelSprintf,
		"strings.Join":      modelStringsJoin,
		"strconv.ParseInt":  modelParseInt,
		"strconv.ParseUint": modelParseUint,
		"strconv.ParseFloat": func(e *Enc, f *frame, st *State, in *ssa.Call, args []Val, rs *Shape) Val {
			res := e.freshVal(rs, f.prefix+in.Name())
			e.assumeLoaded(st, res)
			// err == nil  <=>  the text is a float literal; value is a function of the text
			e.assume(fmt.Sprintf("(=> (= %s 0) (= %s (parsefloat %s)))", res.Sub[1].Sub[0].T, res.Sub[0].T, args[0].T))
			return res
		},
		"(*strings.Builder).WriteString": modelBuilderWrite,
		"(*strings.Builder).WriteRune":   modelBuilderWrite,
		"(*strings.Builder).WriteByte":   modelBuilderWrite,
		"(*strings.Builder).String":      modelBuilderString,
		"(*strings.Builder).Len":         modelBuilderLen,
		"(*strings.Builder).Reset":       modelBuilderReset,
		"(*bytes.Buffer).WriteString":    modelBuilderWrite,
		"(*bytes.Buffer).WriteRune":      modelBuilderWrite,
		"(*bytes.Buffer).WriteByte":      modelBuilderWrite,
		"(*bytes.Buffer).String":         modelBuilderString,
		"(*bytes.Buffer).Len":            modelBuilderLen,
		"(*bytes.Buffer).Reset":          modelBuilderReset,
		"(*bytes.Buffer).Bytes":          modelBufferBytes,
		"(*bytes.Buffer).Truncate":       modelBufferTruncate,
	}
	libInvoke = map[string]invokeModel{
		"io.RuneScanner.ReadRune":   modelReadRune,
		"io.RuneReader.ReadRune":    modelReadRune,
		"io.RuneScanner.UnreadRune": modelUnreadRune,
	}
}

// Rune streams. An io.RuneScanner object o has an immutable ghost input
// (rsin o k), 0 <= k < (rslen o), and a cursor in heap Lib#rscur.
//   ReadRune:  k < len and in[k] != 0: (in[k], size>0, nil), cursor+1
//              k < len and in[k] == 0: (0, _, err?)          cursor+1   (a NUL rune; *reader reports it as EOF)
//              k >= len:               (0, 0, err != nil),   cursor or cursor+1 (bufio stays, *reader counts the EOF)
//   UnreadRune: cursor-1 (after a successful or counted read)
func (e *Enc) rsHeap(st *State) *Heap { return e.heapS(st, "Lib#rscur", "(Array Int Int)", false) }

func (e *Enc) declOnce(name, decl string) {
	if !e.lemmaDone["decl:"+name] {
		e.lemmaDone["decl:"+name] = true
		e.emit(decl)
	}
}

func (e *Enc) rsDecls() {
	e.declOnce("rsin", "(declare-fun rsin (Int Int) Int)")
	e.declOnce("rslen", "(declare-fun rslen (Int) Int)")
}

func modelReadRune(e *Enc, f *frame, st *State, in *ssa.Call, recv Val, args []Val, rs *Shape) Val {
	e.rsDecls()
	o := recv.Sub[1].T
	h := e.rsHeap(st)
	cur := e.define("rscur", "Int", e.sel(h, o, ""))
	res := e.freshVal(rs, f.prefix+in.Name())
	e.assumeLoaded(st, res)
	ch, size, errT := res.Sub[0].T, res.Sub[1].T, res.Sub[2].Sub[0].T
	inb := fmt.Sprintf("(and (<= 0 %s) (< %s (rslen %s)))", cur, cur, o)
	e.assume(fmt.Sprintf("(and (<= 0 (rslen %s)) (<= 0 %s))", o, cur))
	e.assume(fmt.Sprintf("(=> %s (and (= %s (rsin %s %s)) (<= 0 %s) (<= %s 1114111)))", inb, ch, o, cur, ch, ch))
	e.assume(fmt.Sprintf("(=> (and %s (not (= %s 0))) (and (= %s 0) (> %s 0)))", inb, ch, errT, size))
	e.assume(fmt.Sprintf("(=> (not %s) (and (= %s 0) (not (= %s 0))))", inb, ch, errT))
	nc := e.fresh("rscur", "Int")
	e.assume(fmt.Sprintf("(=> %s (= %s (+ %s 1)))", inb, nc, cur))
	e.assume(fmt.Sprintf("(=> (not %s) (or (= %s %s) (= %s (+ %s 1))))", inb, nc, cur, nc, cur))
	n := &Heap{Name: h.Name, Sort: h.Sort, Prev: h}
	n.Term = e.define("H_Lib_rscur", h.Sort, fmt.Sprintf("(store %s %s %s)", h.Term, o, nc))
	st.heaps[h.Name] = n
	return res
}

func modelUnreadRune(e *Enc, f *frame, st *State, in *ssa.Call, recv Val, args []Val, rs *Shape) Val {
	e.rsDecls()
	o := recv.Sub[1].T
	h := e.rsHeap(st)
	cur := e.sel(h, o, "")
	n := &Heap{Name: h.Name, Sort: h.Sort, Prev: h}
	n.Term = e.define("H_Lib_rscur", h.Sort, fmt.Sprintf("(store %s %s (- %s 1))", h.Term, o, cur))
	st.heaps[h.Name] = n
	res := e.freshVal(rs, f.prefix+in.Name())
	e.assumeLoaded(st, res)
	return res
}

func (e *Enc) libCall(f *frame, st *State, in *ssa.Call, callee *ssa.Function, args []Val, resShape *Shape) Val {
	name := callee.String()
	e.usedLib[name] = true
	if m, ok := libModels[name]; ok {
		return m(e, f, st, in, args, resShape)
	}
	if names := sortCallNames(in.Common()); names != nil {
		return e.modelSort(f, st, in, names, resShape)
	}
	if libWritesArgs[name] {
		panic(unsupported("library function that writes its arguments: " + name))
	}
	if libPure[name] {
		return e.pureLib(name, args, resShape)
	}
	// unknown: havoc'd result, no effect on package-visible memory (assumption)
	e.noteHavoc("lib " + name)
	res := e.freshVal(resShape, f.prefix+in.Name())
	e.assumeLoaded(st, res)
	return res
}

// pureLib applies an uninterpreted function per result leaf.
func (e *Enc) pureLib(name string, args []Val, resShape *Shape) Val {
	var as []string
	var sorts []string
	for _, a := range args {
		for _, t := range flatten(a) {
			as = append(as, t)
		}
		for _, l := range leavesOfArg(a) {
			sorts = append(sorts, l.K.Sort())
		}
	}
	ls := leavesOf(resShape)
	ts := make([]string, len(ls))
	for i, l := range ls {
		fn := fmt.Sprintf("lib_%s_%d", sanitize(name), i)
		key := "decl:" + fn
		if !e.lemmaDone[key] {
			e.lemmaDone[key] = true
			e.emit(fmt.Sprintf("(declare-fun %s (%s) %s)", fn, strings.Join(sorts, " "), l.K.Sort()))
		}
		if len(as) == 0 {
			ts[i] = fn
		} else {
			ts[i] = "(" + fn + " " + strings.Join(as, " ") + ")"
		}
	}
	if ax := timeAxiom(name, as, ts); ax != "" && e.inQuant == 0 {
		e.assume(ax)
	}
	v := build(resShape, &ts)
	v = e.nameVal(v, "lib")
	e.assumeLoaded(e.curState, v)
	return v
}

// timeAxiom: the time package read through one abstraction, tnano(t) = the
// instant of t in nanoseconds since the Unix epoch as a mathematical integer
// (the zero Time is 0001-01-01T00:00:00Z). Monotonic clock readings and
// locations do not take part in the comparisons (trusted).
func timeAxiom(name string, as, rs []string) string {
	const tz = "(- 62135596800000000000)"
	switch name {
	case "(time.Time).IsZero":
		return fmt.Sprintf("(= %s (= (tnano %s) %s))", rs[0], as[0], tz)
	case "(time.Time).After":
		return fmt.Sprintf("(= %s (> (tnano %s) (tnano %s)))", rs[0], as[0], as[1])
	case "(time.Time).Before":
		return fmt.Sprintf("(= %s (< (tnano %s) (tnano %s)))", rs[0], as[0], as[1])
	case "(time.Time).Equal":
		return fmt.Sprintf("(= %s (= (tnano %s) (tnano %s)))", rs[0], as[0], as[1])
	case "(time.Time).Add":
		return fmt.Sprintf("(= (tnano %s) (+ (tnano %s) %s))", rs[0], as[0], as[1])
	case "(time.Time).UTC", "(time.Time).In":
		return fmt.Sprintf("(= (tnano %s) (tnano %s))", rs[0], as[0])
	case "time.Unix":
		return fmt.Sprintf("(= (tnano %s) (+ (* %s 1000000000) %s))", rs[0], as[0], as[1])
	case "(time.Time).UnixNano":
		return fmt.Sprintf("(= %s (wrapS64 (tnano %s)))", rs[0], as[0])
	}
	return ""
}

func leavesOfArg(a Val) []leafInfo { return leavesOf(a.Sh) }

func modelNewError(e *Enc, f *frame, st *State, in *ssa.Call, args []Val, rs *Shape) Val {
	r := e.alloc(st)
	tag := e.w.namedTag("*errors.errorString")
	if in.Common().Value.(*ssa.Function).String() == "fmt.Errorf" {
		tag = e.w.namedTag("*fmt.wrapError")
	}
	return Val{Sh: rs, Sub: []Val{intVal(fmt.Sprintf("%d", tag)), intVal(r)}}
}

// Sprintf: result is an uninterpreted function of the constant format and the
// argument leaves ("sprintf_<n>"), so equal inputs give equal text.
func modelSprintf(e *Enc, f *frame, st *State, in *ssa.Call, args []Val, rs *Shape) Val {
	name := in.Common().Value.(*ssa.Function).Name()
	var fmtT string
	var va Val
	if name == "Sprint" {
		fmtT, va = "str_empty", args[0]
	} else {
		fmtT, va = args[0].T, args[1]
	}
	n, ok := constLen(va)
	if va.Sub[0].T == "0" {
		n, ok = 0, true
	}
	if !ok || n > 8 {
		res := e.freshVal(rs, f.prefix+in.Name())
		e.assumeLoaded(st, res)
		return res
	}
	el := va.Sh.T.Underlying().(*types.Slice).Elem()
	ts := []string{fmtT}
	srt := []string{"Str"}
	for k := 0; k < n; k++ {
		v := e.load(st, &Loc{Base: va.Sub[0].T, Path: elemPath(el), Idx: fmt.Sprintf("(+ %s %d)", va.Sub[1].T, k), Sh: shapeOf(el)})
		ts = append(ts, v.Sub[0].T, v.Sub[1].T)
		srt = append(srt, "Int", "Int")
	}
	fn := fmt.Sprintf("sprintf%d", n)
	if !e.lemmaDone["decl:"+fn] {
		e.lemmaDone["decl:"+fn] = true
		e.emit(fmt.Sprintf("(declare-fun %s (%s) Str)", fn, strings.Join(srt, " ")))
	}
	t := e.define("spr", "Str", "("+fn+" "+strings.Join(ts, " ")+")")
	v := Val{Sh: rs, T: t}
	e.assumeLoaded(st, v)
	return v
}

func modelStringsJoin(e *Enc, f *frame, st *State, in *ssa.Call, args []Val, rs *Shape) Val {
	res := e.freshVal(rs, f.prefix+in.Name())
	e.assumeLoaded(st, res)
	return res
}

// strconv.ParseInt(s, 10, 64): err == nil  =>  n == digitsval(s) and fits.
func modelParseInt(e *Enc, f *frame, st *State, in *ssa.Call, args []Val, rs *Shape) Val {
	res := e.freshVal(rs, f.prefix+in.Name())
	e.assumeLoaded(st, res)
	n, errT := res.Sub[0].T, res.Sub[1].Sub[0].T
	e.assume(fmt.Sprintf("(=> (= %s 0) (= %s (parseint %s %s)))", errT, n, args[0].T, args[1].T))
	e.assume(fmt.Sprintf("(=> (not (= %s 0)) (not (= %s 0)))", errT, res.Sub[1].Sub[1].T))
	// a run of decimal digits parses iff its value fits; its value is non-negative
	// only a leading '-' makes the value negative: a text that starts with a digit parses to n >= 0
	e.assume(fmt.Sprintf("(=> (and (= %s 0) (<= 48 (runeat %s 0)) (<= (runeat %s 0) 57)) (>= %s 0))", errT, args[0].T, args[0].T, n))
	return res
}

func modelParseUint(e *Enc, f *frame, st *State, in *ssa.Call, args []Val, rs *Shape) Val {
	res := e.freshVal(rs, f.prefix+in.Name())
	e.assumeLoaded(st, res)
	e.assume(fmt.Sprintf("(=> (= %s 0) (= %s (parseint %s %s)))", res.Sub[1].Sub[0].T, res.Sub[0].T, args[0].T, args[1].T))
	return res
}

// strings.Builder / bytes.Buffer: ghost content per object in heap "Lib#content".
func (e *Enc) contentHeap(st *State) *Heap {
	return e.heapS(st, "Lib#content", "(Array Int Str)", false)
}

func (e *Enc) libObjectInit(st *State, ref string, t types.Type) {
	h := e.contentHeap(st)
	n := &Heap{Name: h.Name, Sort: h.Sort, Prev: h}
	n.Term = e.define("H_Lib_content", h.Sort, fmt.Sprintf("(store %s %s str_empty)", h.Term, ref))
	st.heaps[h.Name] = n
}

func modelBuilderWrite(e *Enc, f *frame, st *State, in *ssa.Call, args []Val, rs *Shape) Val {
	if e.fc != nil && e.fc.HasModifies && e.noObl == 0 && f.top {
		e.frameCheckBase(f, st, args[0].T, "Lib#content", in, "false")
	}
	h := e.contentHeap(st)
	b := args[0].T
	old := e.sel(h, b, "")
	var piece string
	switch args[1].Sh.K {
	case KStr:
		piece = args[1].T
	case KInt:
		piece = e.define("srune", "Str", fmt.Sprintf("(srune %s)", args[1].T))
		e.assert(fmt.Sprintf("(and (<= 1 (slen %s)) (<= (slen %s) 4))", piece, piece))
	default:
		panic(unsupported("builder write of " + args[1].Sh.T.String()))
	}
	nc := e.strCat(old, piece)
	n := &Heap{Name: h.Name, Sort: h.Sort, Prev: h}
	n.Term = e.define("H_Lib_content", h.Sort, fmt.Sprintf("(store %s %s %s)", h.Term, b, nc))
	st.heaps[h.Name] = n
	res := e.freshVal(rs, f.prefix+in.Name())
	// error results of these writers are always nil
	for i, s := range rs.Sub {
		if s.K == KIface {
			e.assume(fmt.Sprintf("(= %s 0)", res.Sub[i].Sub[0].T))
		}
	}
	if rs.K == KIface {
		e.assume(fmt.Sprintf("(= %s 0)", res.Sub[0].T))
	}
	return res
}

func modelBuilderString(e *Enc, f *frame, st *State, in *ssa.Call, args []Val, rs *Shape) Val {
	h := e.contentHeap(st)
	return Val{Sh: rs, T: e.sel(h, args[0].T, "")}
}

func modelBuilderLen(e *Enc, f *frame, st *State, in *ssa.Call, args []Val, rs *Shape) Val {
	h := e.contentHeap(st)
	return Val{Sh: rs, T: fmt.Sprintf("(slen %s)", e.sel(h, args[0].T, ""))}
}

func modelBuilderReset(e *Enc, f *frame, st *State, in *ssa.Call, args []Val, rs *Shape) Val {
	if e.fc != nil && e.fc.HasModifies && e.noObl == 0 && f.top {
		e.frameCheckBase(f, st, args[0].T, "Lib#content", in, "false")
	}
	h := e.contentHeap(st)
	n := &Heap{Name: h.Name, Sort: h.Sort, Prev: h}
	n.Term = e.define("H_Lib_content", h.Sort, fmt.Sprintf("(store %s %s str_empty)", h.Term, args[0].T))
	st.heaps[h.Name] = n
	return Val{Sh: rs}
}

func modelBufferTruncate(e *Enc, f *frame, st *State, in *ssa.Call, args []Val, rs *Shape) Val {
	if e.fc != nil && e.fc.HasModifies && e.noObl == 0 && f.top {
		e.frameCheckBase(f, st, args[0].T, "Lib#content", in, "false")
	}
	h := e.contentHeap(st)
	old := e.sel(h, args[0].T, "")
	nc := e.define("sub", "Str", fmt.Sprintf("(ssub %s 0 %s)", old, args[1].T))
	n := &Heap{Name: h.Name, Sort: h.Sort, Prev: h}
	n.Term = e.define("H_Lib_content", h.Sort, fmt.Sprintf("(store %s %s %s)", h.Term, args[0].T, nc))
	st.heaps[h.Name] = n
	return Val{Sh: rs}
}

// Bytes(): a fresh byte slice whose content is the byte view of the content.
func modelBufferBytes(e *Enc, f *frame, st *State, in *ssa.Call, args []Val, rs *Shape) Val {
	h := e.contentHeap(st)
	c := e.sel(h, args[0].T, "")
	r := e.alloc(st)
	el := rs.T.Underlying().(*types.Slice).Elem()
	eh := e.heap(st, elemPath(el), KInt)
	n := &Heap{Name: eh.Name, Sort: eh.Sort, Indexed: true, Prev: eh}
	n.Term = e.define("H_"+sanitize(eh.Name), eh.Sort, fmt.Sprintf("(store %s %s (bytes %s))", eh.Term, r, c))
	st.heaps[eh.Name] = n
	l := fmt.Sprintf("(slen %s)", c)
	return Val{Sh: rs, Sub: []Val{intVal(r), intVal("0"), intVal(l), intVal(l)}}
}

// prelude: sorts and functions shared by every query.
const preludeHead = `(set-logic ALL)
(declare-sort Str 0)
(declare-sort F 0)
(declare-sort Tm 0)
(declare-sort U 0)
(declare-const str_empty Str)
(declare-const f_zero F)
(declare-const tm_zero Tm)
(declare-fun tnano (Tm) Int)
(declare-const u_zero U)
(declare-fun slen (Str) Int)
(declare-fun rlen (Str) Int)
(declare-fun sat (Str Int) Int)
(declare-fun runeat (Str Int) Int)
(declare-fun scat (Str Str) Str)
(declare-fun ssub (Str Int Int) Str)
(declare-fun srune (Int) Str)
(declare-fun strlt (Str Str) Bool)
(declare-fun runes (Str) (Array Int Int))
(declare-fun bytes (Str) (Array Int Int))
(declare-fun sofrunes ((Array Int Int) Int Int) Str)
(declare-fun sofbytes ((Array Int Int) Int Int) Str)
(declare-fun parseint (Str Int) Int)
(declare-fun parsefloat (Str) F)
(declare-fun alldigits (Str) Bool)
(declare-fun i2f (Int) F)
(declare-fun fadd (F F) F)
(declare-fun fsub (F F) F)
(declare-fun fmul (F F) F)
(declare-fun fdiv (F F) F)
(declare-fun fneg (F) F)
(declare-fun feq (F F) Bool)
(declare-fun flt (F F) Bool)
(declare-fun fle (F F) Bool)
(declare-fun f2iS64 (F) Int)
(declare-fun f2iU64 (F) Int)
(declare-fun f2iS32 (F) Int)
(declare-fun f2iU32 (F) Int)
(declare-fun f2iS8 (F) Int)
(declare-fun f2iU8 (F) Int)
(declare-fun f2iS16 (F) Int)
(declare-fun f2iU16 (F) Int)
(declare-fun boxF (F) Int)
(declare-fun unboxF (Int) F)
(declare-fun boxS (Str) Int)
(declare-fun unboxS (Int) Str)
(declare-fun boxT (Tm) Int)
(declare-fun unboxT (Int) Tm)
(declare-fun boxU (U) Int)
(declare-fun unboxU (Int) U)
(declare-fun bitandS (Int Int) Int)
(declare-fun bitorS (Int Int) Int)
(declare-fun bitxorS (Int Int) Int)
(declare-fun bitandnotS (Int Int) Int)
(declare-fun bitnotS (Int) Int)
(declare-fun bitandU (Int Int) Int)
(declare-fun bitorU (Int Int) Int)
(declare-fun bitxorU (Int Int) Int)
(declare-fun bitandnotU (Int Int) Int)
(declare-fun bitnotU (Int) Int)
(declare-fun shl (Int Int) Int)
(declare-fun shr (Int Int) Int)
(declare-fun implements (Int Int) Bool)
(define-fun tdiv ((x Int) (y Int)) Int (ite (= y 0) 0 (ite (>= x 0) (ite (> y 0) (div x y) (- (div x (- y)))) (ite (> y 0) (- (div (- x) y)) (div (- x) (- y))))))
(define-fun tmod ((x Int) (y Int)) Int (- x (* y (tdiv x y))))
(define-fun wrapS64 ((x Int)) Int (ite (and (<= (- 9223372036854775808) x) (<= x 9223372036854775807)) x (- (mod (+ x 9223372036854775808) 18446744073709551616) 9223372036854775808)))
(define-fun wrapU64 ((x Int)) Int (ite (and (<= 0 x) (<= x 18446744073709551615)) x (mod x 18446744073709551616)))
(define-fun wrapS32 ((x Int)) Int (ite (and (<= (- 2147483648) x) (<= x 2147483647)) x (- (mod (+ x 2147483648) 4294967296) 2147483648)))
(define-fun wrapU32 ((x Int)) Int (ite (and (<= 0 x) (<= x 4294967295)) x (mod x 4294967296)))
(define-fun wrapS16 ((x Int)) Int (ite (and (<= (- 32768) x) (<= x 32767)) x (- (mod (+ x 32768) 65536) 32768)))
(define-fun wrapU16 ((x Int)) Int (ite (and (<= 0 x) (<= x 65535)) x (mod x 65536)))
(define-fun wrapS8 ((x Int)) Int (ite (and (<= (- 128) x) (<= x 127)) x (- (mod (+ x 128) 256) 128)))
(define-fun wrapU8 ((x Int)) Int (ite (and (<= 0 x) (<= x 255)) x (mod x 256)))
(assert (= (slen str_empty) 0))
(assert (= (rlen str_empty) 0))
(assert (= (tnano tm_zero) (- 62135596800000000000)))
`

var preludeSorts = map[string]*Shape{
	"slen": intShape, "rlen": intShape, "sat": intShape, "runeat": intShape, "parseint": intShape,
	"alldigits": boolShape, "strlt": boolShape, "scat": strShape, "srune": strShape, "ssub": strShape,
	"i2f": floatShape, "fadd": floatShape, "fsub": floatShape, "fmul": floatShape, "fdiv": floatShape, "fneg": floatShape,
	"feq": boolShape, "flt": boolShape, "fle": boolShape, "implements": boolShape,
	"tdiv": intShape, "tmod": intShape, "wrapS64": intShape, "wrapU64": intShape,
}

// FindAllStringSubmatchIndex(s, n): nil, or a non-empty list of matches in
// increasing, non-overlapping order; match k is a slice m of at least 4 ints
// (this package only uses patterns with exactly one, always participating,
// capture group) with 0 <= m[0] <= m[2] <= m[3] <= m[1] <= len(s), and
// m_k[1] <= m_{k+1}[0]. Trusted (audited by the thorough tier at run time).
func modelFindAllSubmatchIndex(e *Enc, f *frame, st *State, in *ssa.Call, args []Val, rs *Shape) Val {
	res := e.freshVal(rs, f.prefix+in.Name())
	s := args[1].T
	base, off, ln := res.Sub[0].T, res.Sub[1].T, res.Sub[2].T
	e.assume(fmt.Sprintf("(or (= %s 0) (and (> %s 0) (>= %s %s)))", base, ln, base, st.next))
	nn := e.fresh("next", "Int")
	e.assume(fmt.Sprintf("(> %s %s)", nn, base))
	e.assume(fmt.Sprintf("(>= %s %s)", nn, st.next))
	st.next = nn
	e.assumeLoaded(st, res)
	outer := rs.T.Underlying().(*types.Slice).Elem()
	inner := outer.Underlying().(*types.Slice).Elem()
	hb := e.heap(st, elemPath(outer)+"#base", KInt)
	ho := e.heap(st, elemPath(outer)+"#off", KInt)
	hl := e.heap(st, elemPath(outer)+"#len", KInt)
	hi := e.heap(st, elemPath(inner), KInt)
	mk := func(k string) string {
		mb := fmt.Sprintf("(select (select %s %s) (+ %s %s))", hb.Term, base, off, k)
		mo := fmt.Sprintf("(select (select %s %s) (+ %s %s))", ho.Term, base, off, k)
		ml := fmt.Sprintf("(select (select %s %s) (+ %s %s))", hl.Term, base, off, k)
		m := func(j int) string { return fmt.Sprintf("(select (select %s %s) (+ %s %d))", hi.Term, mb, mo, j) }
		nb := fmt.Sprintf("(select (select %s %s) (+ %s %s 1))", hb.Term, base, off, k)
		no := fmt.Sprintf("(select (select %s %s) (+ %s %s 1))", ho.Term, base, off, k)
		n0 := fmt.Sprintf("(select (select %s %s) (+ %s 0))", hi.Term, nb, no)
		return fmt.Sprintf("(=> (and (<= 0 %s) (< %s %s)) (and (not (= %s 0)) (>= %s 4) (<= 0 %s) (<= %s %s) (<= %s %s) (<= %s %s) (<= %s (slen %s)) (=> (< (+ %s 1) %s) (<= %s %s))))",
			k, k, ln, mb, ml, m(0), m(0), m(2), m(2), m(3), m(3), m(1), m(1), s, k, ln, m(1), n0)
	}
	e.ctr["qf"]++
	qf := &quantFact{id: e.ctr["qf"], reach: e.curReach, elems: map[string]bool{elemPath(outer): true}, inst: mk}
	e.quantFacts = append(e.quantFacts, qf)
	e.assumed = append(e.assumed, "regexp.FindAllStringSubmatchIndex returns matches in increasing non-overlapping order with group 1 inside the match and inside the text (trusted model)")
	return res
}

// modelSort: the backing array of the sorted slice gets arbitrary contents (an
// over-approximation of "permuted"); nothing else changes. Trusted.
func (e *Enc) modelSort(f *frame, st *State, in *ssa.Call, names []string, rs *Shape) Val {
	var sl Val
	if mi, ok := in.Call.Args[0].(*ssa.MakeInterface); ok {
		sl = e.value(f, mi.X)
	} else {
		sl = e.value(f, in.Call.Args[0])
	}
	base := sl.Sub[0].T
	local := false
	if mi, ok := in.Call.Args[0].(*ssa.MakeInterface); ok {
		local = sliceIsLocal(mi.X, map[ssa.Value]bool{})
	} else {
		local = sliceIsLocal(in.Call.Args[0], map[ssa.Value]bool{})
	}
	if e.fc != nil && e.fc.HasModifies && e.noObl == 0 && !local {
		for _, n := range names {
			e.frameCheckBase(f, st, base, n, in, "false")
		}
	}
	for _, n := range names {
		h, ok := st.heaps[n]
		if !ok {
			st.markDirty(n, newDirty(false, "")) // not used yet in this function: unknown contents from here on
			continue
		}
		nh := e.newHeapVersion(h, "s")
		// every other row keeps its value
		nh.Prev, nh.IsFrm = h, true
		nh.Except = []string{base}
		nh.Bound = "" 
		st.heaps[n] = nh
	}
	return Val{Sh: rs}
}
