package main

import (
	"fmt"
	"go/types"

	"golang.org/x/tools/go/ssa"
)

// Interface values are (typ, val). typ is a small integer tag per concrete
// type (0 = nil interface). val is the pointer for pointer-like dynamic types,
// the integer for integer kinds, 0/1 for booleans and an injective box for
// floats, strings, times and struct values.

func (e *Enc) box(v Val) string {
	switch v.Sh.K {
	case KInt:
		return v.T
	case KBool:
		return fmt.Sprintf("(ite %s 1 0)", v.T)
	case KFloat:
		b := e.define("box", "Int", fmt.Sprintf("(boxF %s)", v.T))
		e.assert(fmt.Sprintf("(= (unboxF %s) %s)", b, v.T))
		return b
	case KStr:
		b := e.define("box", "Int", fmt.Sprintf("(boxS %s)", v.T))
		e.assert(fmt.Sprintf("(= (unboxS %s) %s)", b, v.T))
		return b
	case KTime:
		b := e.define("box", "Int", fmt.Sprintf("(boxT %s)", v.T))
		e.assert(fmt.Sprintf("(= (unboxT %s) %s)", b, v.T))
		return b
	case KOpaque:
		b := e.define("box", "Int", fmt.Sprintf("(boxU %s)", v.T))
		e.assert(fmt.Sprintf("(= (unboxU %s) %s)", b, v.T))
		return b
	case KSlice, KStruct, KIface:
		// boxed composite: a fresh box whose components are recorded in box heaps
		b := e.fresh("boxc", "Int")
		ts := flatten(v)
		for i, t := range ts {
			e.assert(fmt.Sprintf("(= (select %s %s) %s)", e.boxHeap(v.Sh, i), b, t))
		}
		return b
	}
	panic(unsupported("boxing " + v.Sh.T.String()))
}

func (e *Enc) boxHeap(sh *Shape, i int) string {
	ls := leavesOf(sh)
	name := fmt.Sprintf("Box_%s_%d", sanitize(typeKey(sh.T)), i)
	if !e.lemmaDone["decl:"+name] {
		e.lemmaDone["decl:"+name] = true
		e.declare(name, "(Array Int "+ls[i].K.Sort()+")")
	}
	return name
}

func (e *Enc) unbox(v Val, t types.Type) Val {
	sh := shapeOf(t)
	val := v.Sub[1].T
	switch sh.K {
	case KInt:
		return Val{Sh: sh, T: val}
	case KBool:
		return Val{Sh: sh, T: fmt.Sprintf("(= %s 1)", val)}
	case KFloat:
		return Val{Sh: sh, T: fmt.Sprintf("(unboxF %s)", val)}
	case KStr:
		return Val{Sh: sh, T: fmt.Sprintf("(unboxS %s)", val)}
	case KTime:
		return Val{Sh: sh, T: fmt.Sprintf("(unboxT %s)", val)}
	case KOpaque:
		return Val{Sh: sh, T: fmt.Sprintf("(unboxU %s)", val)}
	case KSlice, KStruct:
		ls := leavesOf(sh)
		ts := make([]string, len(ls))
		for i := range ls {
			ts[i] = fmt.Sprintf("(select %s %s)", e.boxHeap(sh, i), val)
		}
		return build(sh, &ts)
	case KIface:
		return Val{Sh: sh, Sub: v.Sub}
	}
	panic(unsupported("unboxing " + t.String()))
}

func (e *Enc) makeInterface(f *frame, st *State, in *ssa.MakeInterface) Val {
	x := e.value(f, in.X)
	if x.Loc != nil {
		panic(unsupported("interior pointer into interface"))
	}
	tag := e.w.typeTag(in.X.Type())
	out := Val{Sh: shapeOf(in.Type()), Sub: []Val{intVal(fmt.Sprintf("%d", tag)), intVal(e.box(x))}}
	out.Fn = x.Fn
	return out
}

// typeTest: dynamic type of interface value v is t (concrete) or implements t (interface).
func (e *Enc) typeTest(v Val, t types.Type) string {
	if v.Sh.K != KIface {
		specFail("type test on non-interface %s", v.Sh.T)
	}
	typ := v.Sub[0].T
	if it, ok := t.Underlying().(*types.Interface); ok {
		tags := e.w.implementers(it)
		var cs []string
		for _, tg := range tags {
			cs = append(cs, fmt.Sprintf("(= %s %d)", typ, tg))
		}
		if e.w.openInterface(it) {
			// implementations outside the package exist or may exist: unknown tag set
			u := e.define("impl", "Bool", fmt.Sprintf("(implements %s %d)", typ, e.w.typeTag(t)))
			cs = append(cs, fmt.Sprintf("(and %s (not (= %s 0)))", u, typ))
		}
		return or(cs...)
	}
	return fmt.Sprintf("(= %s %d)", typ, e.w.typeTag(t))
}

func (e *Enc) typeAssert(f *frame, st *State, in *ssa.TypeAssert) Val {
	x := e.value(f, in.X)
	ok := e.define(f.prefix+in.Name()+"_ok", "Bool", e.typeTest(x, in.AssertedType))
	var res Val
	if _, isIface := in.AssertedType.Underlying().(*types.Interface); isIface {
		res = Val{Sh: shapeOf(in.AssertedType), Sub: x.Sub}
	} else {
		res = e.unbox(x, in.AssertedType)
	}
	if res.Sh.K == KInt {
		if _, isBasic := in.AssertedType.Underlying().(*types.Basic); isBasic {
			// a boxed integer was in the range of its type when it was put into the interface
			saveR := e.curReach
			e.curReach = and(saveR, ok)
			e.assumeRange(st, res)
			e.curReach = saveR
		}
		if pt, isPtr := in.AssertedType.Underlying().(*types.Pointer); isPtr {
			saveR := e.curReach
			e.curReach = and(saveR, ok)
			e.assumeTypeInv(res, pt.Elem())
			e.curReach = saveR
		}
	}
	if in.CommaOk {
		// on failure the value is the zero value
		z := zeroVal(shapeOf(in.AssertedType))
		val := e.iteVal(ok, res, z)
		return Val{Sh: shapeOf(in.Type()), Sub: []Val{val, boolVal(ok)}}
	}
	e.oblige("assert", e.site(in), in.Pos(), ok, e.safetyProps(), "")
	if res.Sh.K == KInt {
		if _, isPtr := in.AssertedType.Underlying().(*types.Pointer); isPtr {
			e.assume(fmt.Sprintf("(and (<= 0 %s) (< %s %s))", res.T, res.T, st.next))
		}
	}
	return res
}

// ---------------------------------------------------------------------------
// maps: a map value is a reference; per map type three heaps
//   Map#K,V#has : Array Int (Array K Bool)
//   Map#K,V#val.<leaf> : Array Int (Array K leaf)
//   Map#K,V#len : Array Int Int

func mapPath(mt *types.Map) string { return "Map#" + typeKey(mt.Key()) + "," + typeKey(mt.Elem()) }

func keySort(mt *types.Map) string {
	k := shapeOf(mt.Key())
	if !k.IsLeafKind() {
		panic(unsupported("map with composite key " + mt.Key().String()))
	}
	return k.K.Sort()
}

func (e *Enc) mapHeap(st *State, name, sort string) *Heap {
	return e.heapS(st, name, sort, false)
}

func (e *Enc) setMapHeap(st *State, h *Heap, term string) {
	n := &Heap{Name: h.Name, Sort: h.Sort, Prev: h}
	n.Term = e.define("H_"+sanitize(h.Name), h.Sort, term)
	st.heaps[h.Name] = n
}

func (e *Enc) initMap(st *State, ref string, mt *types.Map) {
	p := mapPath(mt)
	ks := keySort(mt)
	has := e.mapHeap(st, p+"#has", "(Array Int (Array "+ks+" Bool))")
	e.setMapHeap(st, has, fmt.Sprintf("(store %s %s ((as const (Array %s Bool)) false))", has.Term, ref, ks))
	ln := e.mapHeap(st, p+"#len", "(Array Int Int)")
	e.setMapHeap(st, ln, fmt.Sprintf("(store %s %s 0)", ln.Term, ref))
}

func (e *Enc) mapGet(st *State, ref string, mt *types.Map, key Val) (string, Val) {
	p := mapPath(mt)
	ks := keySort(mt)
	has := e.mapHeap(st, p+"#has", "(Array Int (Array "+ks+" Bool))")
	e.frameLemmas(has, ref, map[*Heap]bool{})
	ok := fmt.Sprintf("(select (select %s %s) %s)", has.Term, ref, key.T)
	vsh := shapeOf(mt.Elem())
	ls := leavesOf(vsh)
	ts := make([]string, len(ls))
	for i, l := range ls {
		h := e.mapHeap(st, p+"#val"+l.Path, "(Array Int (Array "+ks+" "+l.K.Sort()+"))")
		e.frameLemmas(h, ref, map[*Heap]bool{})
		ts[i] = fmt.Sprintf("(select (select %s %s) %s)", h.Term, ref, key.T)
	}
	if len(ls) == 0 {
		return ok, Val{Sh: vsh}
	}
	return ok, build(vsh, &ts)
}

func (e *Enc) mapLen(st *State, ref string, mt *types.Map) string {
	ln := e.mapHeap(st, mapPath(mt)+"#len", "(Array Int Int)")
	e.frameLemmas(ln, ref, map[*Heap]bool{})
	t := fmt.Sprintf("(select %s %s)", ln.Term, ref)
	e.assert(fmt.Sprintf("(<= 0 %s)", t))
	return t
}

func (e *Enc) lookup(f *frame, st *State, in *ssa.Lookup) Val {
	x := e.value(f, in.X)
	key := e.value(f, in.Index)
	mt, isMap := in.X.Type().Underlying().(*types.Map)
	if !isMap {
		panic(unsupported("Lookup on string"))
	}
	ok, v := e.mapGet(st, x.T, mt, key)
	// a nil map reads as empty
	okT := e.define(f.prefix+in.Name()+"_ok", "Bool", fmt.Sprintf("(and (not (= %s 0)) %s)", x.T, ok))
	val := v
	if len(flatten(v)) > 0 {
		val = e.iteVal(okT, v, zeroVal(v.Sh))
		e.assumeLoaded(st, v)
	}
	if in.CommaOk {
		return Val{Sh: shapeOf(in.Type()), Sub: []Val{val, boolVal(okT)}}
	}
	return val
}

func (e *Enc) mapUpdate(f *frame, st *State, in *ssa.MapUpdate) {
	m := e.value(f, in.Map)
	key := e.value(f, in.Key)
	v := e.value(f, in.Value)
	mt := in.Map.Type().Underlying().(*types.Map)
	e.oblige("nilmap", e.site(in), in.Pos(), fmt.Sprintf("(not (= %s 0))", m.T), e.safetyProps(), "")
	p := mapPath(mt)
	if e.fc != nil && e.fc.HasModifies && e.noObl == 0 {
		e.frameCheckBase(f, st, m.T, p, in, "false")
	}
	ks := keySort(mt)
	has := e.mapHeap(st, p+"#has", "(Array Int (Array "+ks+" Bool))")
	was := fmt.Sprintf("(select (select %s %s) %s)", has.Term, m.T, key.T)
	ln := e.mapHeap(st, p+"#len", "(Array Int Int)")
	e.setMapHeap(st, ln, fmt.Sprintf("(store %s %s (+ (select %s %s) (ite %s 0 1)))", ln.Term, m.T, ln.Term, m.T, was))
	e.setMapHeap(st, has, fmt.Sprintf("(store %s %s (store (select %s %s) %s true))", has.Term, m.T, has.Term, m.T, key.T))
	ls := leavesOf(shapeOf(mt.Elem()))
	ts := flatten(v)
	for i, l := range ls {
		h := e.mapHeap(st, p+"#val"+l.Path, "(Array Int (Array "+ks+" "+l.K.Sort()+"))")
		e.setMapHeap(st, h, fmt.Sprintf("(store %s %s (store (select %s %s) %s %s))", h.Term, m.T, h.Term, m.T, key.T, ts[i]))
	}
}

func (e *Enc) mapDelete(st *State, ref string, mt *types.Map, key Val) {
	p := mapPath(mt)
	ks := keySort(mt)
	has := e.mapHeap(st, p+"#has", "(Array Int (Array "+ks+" Bool))")
	was := fmt.Sprintf("(select (select %s %s) %s)", has.Term, ref, key.T)
	ln := e.mapHeap(st, p+"#len", "(Array Int Int)")
	e.setMapHeap(st, ln, fmt.Sprintf("(store %s %s (- (select %s %s) (ite %s 1 0)))", ln.Term, ref, ln.Term, ref, was))
	e.setMapHeap(st, has, fmt.Sprintf("(store %s %s (store (select %s %s) %s false))", has.Term, ref, has.Term, ref, key.T))
}

// ---------------------------------------------------------------------------
// range over maps and strings: an iterator is opaque; Next yields an arbitrary
// element (maps) or the next rune (strings).

type iterInfo struct {
	x    Val
	t    types.Type
	isSt bool
}

func (e *Enc) rangeInstr(f *frame, st *State, in *ssa.Range) {
	x := e.value(f, in.X)
	e.iters[in] = &iterInfo{x: x, t: in.X.Type()}
	f.vals[in] = Val{Sh: &Shape{K: KOpaque, T: in.Type()}, T: "u_zero"}
}

func (e *Enc) nextInstr(f *frame, st *State, in *ssa.Next) {
	it := e.iters[in.Iter.(*ssa.Range)]
	sh := shapeOf(in.Type())
	ok := e.fresh(f.prefix+in.Name()+"_ok", "Bool")
	if in.IsString {
		idx := e.fresh(f.prefix+in.Name()+"_i", "Int")
		r := e.fresh(f.prefix+in.Name()+"_r", "Int")
		// position and rune of the iteration: within the string; rune decoded at idx
		e.assume(fmt.Sprintf("(=> %s (and (<= 0 %s) (< %s (slen %s)) (= %s (runeat %s %s)) (<= 0 %s) (<= %s 1114111)))", ok, idx, idx, it.x.T, r, it.x.T, idx, r, r))
		// an empty string yields nothing; a non-empty one starts at index 0 (first call) -- order facts are not modelled
		e.assume(fmt.Sprintf("(=> (= (slen %s) 0) (not %s))", it.x.T, ok))
		f.vals[in] = Val{Sh: sh, Sub: []Val{boolVal(ok), {Sh: sh.Sub[1], T: idx}, {Sh: sh.Sub[2], T: r}}}
		return
	}
	mt := it.t.Underlying().(*types.Map)
	k := e.freshVal(shapeOf(mt.Key()), f.prefix+in.Name()+"_k")
	has, v := e.mapGet(st, it.x.T, mt, k)
	e.assume(fmt.Sprintf("(=> %s (and (not (= %s 0)) %s))", ok, it.x.T, has))
	e.assumeLoaded(st, k)
	if len(flatten(v)) > 0 {
		e.assumeLoaded(st, v)
	}
	vv := v
	if sh.Sub[2].K == KOpaque && len(flatten(v)) == 0 {
		vv = Val{Sh: sh.Sub[2], T: "u_zero"}
	}
	kk := k
	if sh.Sub[1].K == KOpaque && !(k.Sh.K == KOpaque) {
		// key unused (blank): SSA types it as invalid
		kk = Val{Sh: sh.Sub[1], T: "u_zero"}
	}
	f.vals[in] = Val{Sh: sh, Sub: []Val{boolVal(ok), kk, vv}}
}
