package main

import (
	"encoding/json"
	"fmt"
	"os"
	"path/filepath"
)

// per-property static notes (what is not decided, bounded stand-ins) live in
// /verif/propnotes.json so that evidence repeats them on every run.
type PropNote struct {
	Undecided   []string `json:"undecided_clauses"`
	Assumptions []string `json:"assumptions"`
}

func loadPropNotes() map[string]PropNote {
	m := map[string]PropNote{}
	data, err := os.ReadFile(filepath.Join(verifDir, "propnotes.json"))
	if err == nil {
		json.Unmarshal(data, &m)
	}
	return m
}

func writeEvidence(prop, tier string, seed int, wall float64, total, discharged int, byBackend map[string]int, solverSecs float64,
	samples []map[string]interface{}, funcs, known, undecided []string, havoc int, libs, ctrs, assumed []string, covers, coverFail, violations int, bounded []map[string]interface{}) {
	notes := loadPropNotes()[prop]
	trusted := []string{
		"govc: SSA -> SMT encoding and contract resolution (this tool)",
		"golang.org/x/tools v0.29.0 go/ssa construction from /repo sources with -tags verif",
		"solvers: z3 5.1.0 (z3-new), z3 4.8.12, cvc5 1.0",
		"Go runtime semantics of slices, maps, append, string/rune conversion as modelled in govc",
	}
	for _, l := range libs {
		trusted = append(trusted, "library model or assumed effect-free: "+l)
	}
	assumptions := []string{
		"machine integers are modelled exactly (two's complement wrap on every + - * and conversion); floats are uninterpreted",
		"library functions without a model return arbitrary values and do not write package-visible memory",
		"termination is claimed only where a decreases clause is listed among the obligations",
	}
	for _, c := range ctrs {
		assumptions = append(assumptions, "callee contract used at call sites (verified in its own right only if listed in functions_under_contract of a property that owns it): "+c)
	}
	assumptions = append(assumptions, assumed...)
	assumptions = append(assumptions, notes.Assumptions...)
	if samples == nil {
		samples = []map[string]interface{}{}
	}
	ev := map[string]interface{}{
		"property_id": prop,
		"tier":        tier,
		"seed":        seed,
		"level":       "proof",
		"wall_s":      wall,
		"violations":  violations,
		"assumptions": assumptions,
		"coverage": map[string]interface{}{
			"obligations":              total,
			"discharged":               discharged,
			"checker_cmd":              fmt.Sprintf("/verif/check %s %s  (govc: go/ssa weakest-precondition VCs; z3-new incremental, then z3-new/z3/cvc5 race per open obligation)", prop, tier),
			"trusted_base":             trusted,
			"functions_under_contract": funcs,
			"by_backend":               byBackend,
			"solver_seconds":           solverSecs,
			"samples":                  samples,
			"known_findings":           known,
			"undischarged":             undecided,
			"havoc_sites":              havoc,
			"covers_checked":           covers,
			"covers_vacuous":           coverFail,
			"undecided_clauses":        notes.Undecided,
			"bounded_checks":           bounded,
		},
	}
	os.MkdirAll(filepath.Join(verifDir, "evidence"), 0o755)
	b, _ := json.MarshalIndent(ev, "", " ")
	os.WriteFile(filepath.Join(verifDir, "evidence", prop+".json"), b, 0o644)
}
