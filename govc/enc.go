package main

import (
	"fmt"
	"go/token"
	"go/types"
	"sort"
	"strings"

	"golang.org/x/tools/go/ssa"
)

// Obligation is one proof goal: under the script prefix Lines[:At], show
// Reach => Goal.
type Obligation struct {
	Name   string
	Kind   string
	Func   string
	Props  []string
	Pos    string
	At     int // number of script lines that precede it
	Reach  string
	Goal   string
	Clause string // source text of the contract clause, if any
	Cover  bool   // cover obligation: expected SAT
	ReachProbe bool // a reachability probe precedes this obligation in the incremental script
	Probes []Probe
	// results
	Status string // unsat | sat | unknown | timeout | error
	Solver string
	Secs   float64
	Model  map[string]string
	Output string
}

type Probe struct{ Name, Term string }

// Enc encodes one function under contract into an SMT script with obligations.
type Enc struct {
	w          *World
	totalOnly  bool // implPost: only implementers whose contract has no pre-condition
	top        *ssa.Function
	fc         *FuncContract
	lines      []string
	obls       []*Obligation
	ctr        map[string]int
	entryHeaps map[string]*Heap
	heapKinds  map[string]Kind
	lemmaDone  map[string]bool
	curReach   string
	havocSites int
	havocNotes []string
	strLits    map[string]string
	fLits      map[string]string
	depth      int
	entry      *State
	nextEntry  string
	trackOvf   bool
	siteCtr    map[string]int
	curState   *State
	curFrame   *frame
	noObl      int // >0: suppress obligations (spec-function inlining)
	dynResults map[string]Val // result of the (last) call through a function-typed parameter
	entryLets  map[string]Val
	ghostObjs  int
	instDepth  int
	specFuncs  map[*ssa.Function]string
	indexTerms []indexTerm
	pol        int // polarity of the formula being evaluated: +1 goal, -1 hypothesis, 0 unknown
	goalSkolems []string
	renamesUsed map[string]bool // contract names resolved through the locals snapshot
	nestInst int
	droppedNested int
	curGoalSkolems []string // Skolem constants of the goal whose hypotheses are being instantiated
	quantFacts []*quantFact
	quantPats  []quantPat
	unproved   []string
	inQuant    int
	invDepth   int
	usedTypeInvs map[string]bool
	topFrame   *frame
	topName    string
	usedContracts map[string]bool
	usedLib    map[string]bool
	assumed    []string
	covers     []*Obligation
	iters      map[*ssa.Range]*iterInfo
}

func newEnc(w *World, fn *ssa.Function, fc *FuncContract) *Enc {
	return &Enc{w: w, top: fn, fc: fc, ctr: map[string]int{}, entryHeaps: map[string]*Heap{}, heapKinds: map[string]Kind{},
		lemmaDone: map[string]bool{}, strLits: map[string]string{}, fLits: map[string]string{}, siteCtr: map[string]int{},
		usedTypeInvs: map[string]bool{}, specFuncs: map[*ssa.Function]string{}, usedContracts: map[string]bool{}, usedLib: map[string]bool{}, iters: map[*ssa.Range]*iterInfo{}, renamesUsed: map[string]bool{}}
}

func (e *Enc) emit(l string) { e.lines = append(e.lines, l) }

func (e *Enc) declare(name, srt string) {
	e.emit(fmt.Sprintf("(declare-const %s %s)", name, srt))
}

func (e *Enc) fresh(base, srt string) string {
	e.ctr[base]++
	n := fmt.Sprintf("%s!%d", base, e.ctr[base])
	e.declare(n, srt)
	return n
}

func (e *Enc) define(base, srt, term string) string {
	if isAtom(term) {
		return term
	}
	if e.inQuant > 0 {
		return term // no hoisting out of a quantifier body: the term may mention the bound variable
	}
	e.ctr[base]++
	n := fmt.Sprintf("%s!%d", base, e.ctr[base])
	// a constant with a defining equation (not a macro): stays atomic inside quantifier patterns
	e.emit(fmt.Sprintf("(declare-const %s %s)", n, srt))
	e.emit(fmt.Sprintf("(assert (= %s %s))", n, term))
	return n
}

func isAtom(t string) bool {
	return !strings.ContainsAny(t, " (")
}

func (e *Enc) assert(t string) {
	if t == "true" {
		return
	}
	if e.inQuant > 0 && strings.Contains(t, "!q") {
		return // would mention a bound variable outside its scope
	}
	e.emit("(assert " + t + ")")
}

// assume adds a fact guarded by the current reach condition.
func (e *Enc) assume(t string) {
	if t == "true" || e.inQuant > 0 {
		return
	}
	e.assert(implies(e.curReach, t))
}

func (e *Enc) posOf(p token.Pos) string {
	if !p.IsValid() {
		return ""
	}
	ps := e.w.fset.Position(p)
	f := ps.Filename
	if i := strings.LastIndex(f, "/"); i >= 0 {
		f = f[i+1:]
	}
	return fmt.Sprintf("%s:%d", f, ps.Line)
}

// oblige records an obligation at the current point and afterwards assumes it.
func (e *Enc) oblige(kind, site string, pos token.Pos, goal string, props []string, clause string) *Obligation {
	if e.noObl > 0 {
		return nil
	}
	if goal == "true" {
		// still counted: trivially discharged obligations are obligations
	}
	fname := e.topName
	if e.top != nil {
		fname = e.w.funcName(e.top)
	}
	key := kind + "@" + site
	e.siteCtr[key]++
	name := fmt.Sprintf("%s#%s@%s", fname, kind, site)
	if e.siteCtr[key] > 1 {
		name = fmt.Sprintf("%s~%d", name, e.siteCtr[key])
	}
	o := &Obligation{Name: name, Kind: kind, Func: fname, Props: props, Pos: e.posOf(pos), At: len(e.lines), Reach: e.curReach, Goal: goal, Clause: clause}
	if e.fc != nil {
		for _, u := range e.fc.Unproved {
			if (strings.HasSuffix(u[0], "$") && strings.HasSuffix(name, strings.TrimSuffix(u[0], "$"))) || (!strings.HasSuffix(u[0], "$") && strings.Contains(name, u[0])) {
				// out of reach: assumed, listed, never counted
				e.unproved = append(e.unproved, fmt.Sprintf("%s [%s]: %s", name, strings.Join(props, ","), u[1]))
				if goal != "false" { // a statically failed obligation cannot be assumed: everything after it would be vacuous
					e.assume(goal)
				}
				return nil
			}
		}
	}
	e.obls = append(e.obls, o)
	// assume-after-assert (a statically failed obligation is not assumed: it would make everything after it vacuous)
	if goal != "false" {
		e.assume(goal)
	}
	return o
}

// ---------------------------------------------------------------------------
// frames: one activation of a function being symbolically executed

type frame struct {
	fn      *ssa.Function
	vals    map[ssa.Value]Val
	prefix  string
	reach   map[*ssa.BasicBlock]string
	out     map[*ssa.BasicBlock]*State
	edge    map[[2]int]string // (from,to) -> condition
	top     bool
	rets    []retSite
	params  []Val
	loops   map[*ssa.BasicBlock]*loopInfo
	idom    map[*ssa.BasicBlock]*ssa.BasicBlock
	headVal map[*ssa.BasicBlock]map[string]Val // loop head -> name -> value at head (for old() in step clauses)
	headSt  map[*ssa.BasicBlock]*State
	locals  []localAlloc
}

type retSite struct {
	reach string
	vals  []Val
	st    *State
	pos   token.Pos
	blk   *ssa.BasicBlock
}

type loopInfo struct {
	head    *ssa.BasicBlock
	blocks  map[*ssa.BasicBlock]bool
	backs   []*ssa.BasicBlock // sources of back edges
	ordinal int
}

func (e *Enc) newFrame(fn *ssa.Function, top bool) *frame {
	e.ctr["frame"]++
	f := &frame{fn: fn, vals: map[ssa.Value]Val{}, reach: map[*ssa.BasicBlock]string{}, out: map[*ssa.BasicBlock]*State{},
		edge: map[[2]int]string{}, top: top, headVal: map[*ssa.BasicBlock]map[string]Val{}, headSt: map[*ssa.BasicBlock]*State{}}
	if !top {
		f.prefix = fmt.Sprintf("i%d_", e.ctr["frame"])
	}
	return f
}

// freshVal makes a fresh unconstrained value of a shape.
func (e *Enc) freshVal(sh *Shape, base string) Val {
	switch sh.K {
	case KSlice:
		v := Val{Sh: sh}
		for _, c := range []string{"base", "off", "len", "cap"} {
			v.Sub = append(v.Sub, intVal(e.fresh(base+"_"+c, "Int")))
		}
		return v
	case KIface:
		return Val{Sh: sh, Sub: []Val{intVal(e.fresh(base+"_typ", "Int")), intVal(e.fresh(base+"_val", "Int"))}}
	case KStruct, KTuple:
		v := Val{Sh: sh}
		for i, s := range sh.Sub {
			n := fmt.Sprintf("%d", i)
			if sh.K == KStruct {
				n = sh.Names[i]
			}
			v.Sub = append(v.Sub, e.freshVal(s, base+"_"+sanitize(n)))
		}
		return v
	case KArray:
		panic(unsupported("fresh array value"))
	}
	return Val{Sh: sh, T: e.fresh(base, sh.K.Sort())}
}

// iteVal builds a value that equals a under c and b otherwise.
func (e *Enc) iteVal(c string, a, b Val) Val {
	if a.IsLeaf() {
		if a.T == b.T {
			return a
		}
		return Val{Sh: a.Sh, T: fmt.Sprintf("(ite %s %s %s)", c, a.T, b.T)}
	}
	v := Val{Sh: a.Sh}
	for i := range a.Sub {
		v.Sub = append(v.Sub, e.iteVal(c, a.Sub[i], b.Sub[i]))
	}
	return v
}

func (e *Enc) eqVal(a, b Val) string {
	if a.IsLeaf() {
		if a.Sh.K == KFloat {
			// structural identity of float terms (not IEEE ==)
			return fmt.Sprintf("(= %s %s)", a.T, b.T)
		}
		return fmt.Sprintf("(= %s %s)", a.T, b.T)
	}
	var cs []string
	for i := range a.Sub {
		cs = append(cs, e.eqVal(a.Sub[i], b.Sub[i]))
	}
	return and(cs...)
}

// nameVal binds a value to defined names so that later terms stay small.
func (e *Enc) nameVal(v Val, base string) Val {
	if v.Loc != nil || v.Fn != nil {
		return v
	}
	if v.IsLeaf() {
		return Val{Sh: v.Sh, T: e.define(base, v.Sh.K.Sort(), v.T)}
	}
	out := Val{Sh: v.Sh}
	for i, s := range v.Sub {
		out.Sub = append(out.Sub, e.nameVal(s, fmt.Sprintf("%s_%d", base, i)))
	}
	return out
}

// ---------------------------------------------------------------------------
// CFG analysis

func computeLoops(fn *ssa.Function) (map[*ssa.BasicBlock]*loopInfo, []*ssa.BasicBlock) {
	// reverse postorder
	var order []*ssa.BasicBlock
	seen := map[*ssa.BasicBlock]bool{}
	var dfs func(b *ssa.BasicBlock)
	dfs = func(b *ssa.BasicBlock) {
		seen[b] = true
		for _, s := range b.Succs {
			if !seen[s] {
				dfs(s)
			}
		}
		order = append(order, b)
	}
	if len(fn.Blocks) > 0 {
		dfs(fn.Blocks[0])
	}
	for i, j := 0, len(order)-1; i < j; i, j = i+1, j-1 {
		order[i], order[j] = order[j], order[i]
	}
	loops := map[*ssa.BasicBlock]*loopInfo{}
	for _, b := range order {
		for _, s := range b.Succs {
			if s.Dominates(b) { // back edge b -> s
				li := loops[s]
				if li == nil {
					li = &loopInfo{head: s, blocks: map[*ssa.BasicBlock]bool{s: true}}
					loops[s] = li
				}
				li.backs = append(li.backs, b)
				// natural loop body
				stack := []*ssa.BasicBlock{b}
				for len(stack) > 0 {
					x := stack[len(stack)-1]
					stack = stack[:len(stack)-1]
					if li.blocks[x] {
						continue
					}
					li.blocks[x] = true
					for _, p := range x.Preds {
						stack = append(stack, p)
					}
				}
			}
		}
	}
	// ordinals by source position of head (fall back to block index)
	var heads []*ssa.BasicBlock
	for h := range loops {
		heads = append(heads, h)
	}
	sort.Slice(heads, func(i, j int) bool { return heads[i].Index < heads[j].Index })
	for i, h := range heads {
		loops[h].ordinal = i + 1
	}
	// topological order ignoring back edges: the RPO of a reducible graph is one.
	return loops, order
}

func isBackEdge(from, to *ssa.BasicBlock) bool { return to.Dominates(from) }

// ---------------------------------------------------------------------------
// executing a function body

type execResult struct {
	rets []retSite
}

func (e *Enc) run(f *frame, args []Val, st *State, reach string) {
	fn := f.fn
	if len(fn.Blocks) == 0 {
		panic(unsupported("function without body: " + fn.String()))
	}
	for i, p := range fn.Params {
		f.vals[p] = args[i]
	}
	f.params = args
	loops, order := computeLoops(fn)
	f.loops = loops
	if !f.top && len(loops) > 0 {
		panic(unsupported("inlined function with loops: " + fn.String()))
	}
	if f.top && e.fc != nil {
		// a clause attached to a loop that the function no longer has is contract drift, not a pass
		for n, cl := range e.fc.Loops {
			if n > len(loops) && len(cl) > 0 {
				panic(contractErr{fmt.Sprintf("%s:%d: clause for loop %d, but %s has %d loop(s): the code no longer matches its contract", cl[0].File, cl[0].Line, n, fn.Name(), len(loops))})
			}
		}
	}
	prevFrame := e.curFrame
	e.curFrame = f
	defer func() { e.curFrame = prevFrame }()

	for _, b := range order {
		// entry state and reach
		var st0 *State
		var r string
		if b == fn.Blocks[0] {
			st0, r = st.clone(), reach
		} else {
			var conds []string
			var sts []*State
			for _, p := range b.Preds {
				if isBackEdge(p, b) {
					continue
				}
				c, ok := f.edge[[2]int{p.Index, b.Index}]
				if !ok {
					continue // unreachable predecessor (not in RPO)
				}
				conds = append(conds, c)
				sts = append(sts, f.out[p])
			}
			if len(conds) == 0 {
				continue
			}
			r = e.define(f.prefix+fmt.Sprintf("reach_b%d", b.Index), "Bool", or(conds...))
			st0 = e.mergeStates(conds, sts)
		}
		f.reach[b] = r
		e.curReach = r
		e.curState = st0
		if li := loops[b]; li != nil {
			e.loopHead(f, li, st0)
		} else {
			e.phis(f, b)
		}
		e.block(f, b, st0)
		f.out[b] = st0
	}
}

// phis defines phi nodes of a non-loop-head block from incoming edges.
func (e *Enc) phis(f *frame, b *ssa.BasicBlock) {
	for _, ins := range b.Instrs {
		phi, ok := ins.(*ssa.Phi)
		if !ok {
			break
		}
		var v Val
		first := true
		// build nested ite over incoming edges
		for i := len(b.Preds) - 1; i >= 0; i-- {
			p := b.Preds[i]
			c, ok := f.edge[[2]int{p.Index, b.Index}]
			if !ok {
				continue
			}
			in := e.value(f, phi.Edges[i])
			if in.Loc != nil || in.Fn != nil {
				if first {
					v = in
					first = false
					continue
				}
				if v.Loc != nil || v.Fn != nil {
					// two static pointers/functions: only fine if identical
					if fmt.Sprint(v.Loc) == fmt.Sprint(in.Loc) && v.Fn == in.Fn {
						continue
					}
				}
				panic(unsupported("phi over interior pointers / function values"))
			}
			if first {
				v = in
				first = false
			} else {
				if v.Loc != nil || v.Fn != nil {
					panic(unsupported("phi over interior pointers / function values"))
				}
				v = e.iteVal(c, in, v)
			}
		}
		if first {
			continue
		}
		f.vals[phi] = e.nameVal(v, f.prefix+phi.Name())
	}
}

func (e *Enc) value(f *frame, v ssa.Value) Val {
	switch x := v.(type) {
	case *ssa.Const:
		return e.constVal(x)
	case *ssa.Global:
		return e.globalAddr(x)
	case *ssa.Function:
		return Val{Sh: shapeOf(x.Type()), T: e.funcTag(x), Fn: &FnVal{Fn: x}}
	case *ssa.Builtin:
		panic(unsupported("builtin as value"))
	}
	if val, ok := f.vals[v]; ok {
		return val
	}
	if fv, ok := v.(*ssa.FreeVar); ok {
		panic(unsupported("free variable " + fv.Name()))
	}
	panic(fmt.Sprintf("value %s (%T) not defined in %s", v.Name(), v, f.fn))
}

type FnVal struct {
	Fn       *ssa.Function
	Bindings []Val
}

func (e *Enc) funcTag(fn *ssa.Function) string {
	return fmt.Sprintf("%d", e.w.funcID(fn))
}

func (e *Enc) globalAddr(g *ssa.Global) Val {
	// A package-level variable is a cell at a fixed reference.
	id := e.w.globalID(g)
	pt := g.Type().(*types.Pointer).Elem()
	loc := &Loc{Base: fmt.Sprintf("%d", id), Path: "Global#" + g.Name(), Sh: shapeOf(pt)}
	return Val{Sh: shapeOf(g.Type()), T: fmt.Sprintf("%d", id), Loc: loc}
}

type quantPat struct {
	bv    string
	pats  []string
	names []string
}

// evalMode: the evaluator's mode counters. A spec evaluation abandoned by a
// recovered panic must not leave them changed (a stuck inQuant silently turns
// every later assumption into a no-op).
type evalMode struct {
	inQuant, noObl, instDepth, nestInst, invDepth, pol, nPats int
	reach                                               string
	state                                               *State
}

func (e *Enc) saveMode() evalMode {
	return evalMode{e.inQuant, e.noObl, e.instDepth, e.nestInst, e.invDepth, e.pol, len(e.quantPats), e.curReach, e.curState}
}

func (e *Enc) restoreMode(m evalMode) {
	e.inQuant, e.noObl, e.instDepth, e.nestInst, e.invDepth, e.pol = m.inQuant, m.noObl, m.instDepth, m.nestInst, m.invDepth, m.pol
	if len(e.quantPats) > m.nPats {
		e.quantPats = e.quantPats[:m.nPats]
	}
	e.curReach, e.curState = m.reach, m.state
}
