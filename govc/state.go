package main

import (
	"fmt"
	"go/types"
	"sort"
	"strings"
)

// Loc is a statically shaped memory location: object Base, heap-name prefix
// Path, optional element index Idx, pointee shape Sh.
type Loc struct {
	Base string
	Path string
	Idx  string
	Sh   *Shape
}

// Heap is one version of one heap array. Provenance is kept so that frame
// lemmas can be instantiated at each select (quantifier-free).
type Heap struct {
	Name    string
	Term    string
	Sort    string
	Indexed bool
	// provenance
	Prev   *Heap   // store / frame predecessor
	Ins    []*Heap // merge inputs
	Bound  string  // frame: refs < Bound (and not in Except) are unchanged w.r.t. Prev
	Except []string
	IsFrm  bool
}

type State struct {
	heaps  map[string]*Heap
	next   string         // allocation counter term
	ghosts map[string]Val // ghost variables (ovf, stream cursors, ...)
	// heaps havoc'd before their first use in this function
	dirty    map[string]*dirtyRec
	allDirty *dirtyRec
}

// dirtyRec: heaps were havoc'd before their first use; if frame is set,
// objects below bound kept their entry values. Versions materialised from a
// record are shared by all states that carry the same record.
type dirtyRec struct {
	frame bool
	bound string
	made  map[string]*Heap
	prev  *dirtyRec // an earlier havoc of the same heap, also before its first use (per-name records only)
}

func newDirty(frame bool, bound string) *dirtyRec {
	return &dirtyRec{frame: frame, bound: bound, made: map[string]*Heap{}}
}

// flat: the record's meaning relative to the entry heap: framed only if every
// havoc in the chain was, and then below the earliest bound.
func (d *dirtyRec) flat() (bool, string) {
	fr, b := d.frame, d.bound
	for p := d.prev; p != nil; p = p.prev {
		fr = fr && p.frame
		b = p.bound
	}
	return fr, b
}

func (s *State) clone() *State {
	n := &State{heaps: make(map[string]*Heap, len(s.heaps)), next: s.next, ghosts: make(map[string]Val, len(s.ghosts)),
		dirty: make(map[string]*dirtyRec, len(s.dirty)), allDirty: s.allDirty}
	for k, v := range s.heaps {
		n.heaps[k] = v
	}
	for k, v := range s.ghosts {
		n.ghosts[k] = v
	}
	for k, v := range s.dirty {
		n.dirty[k] = v
	}
	return n
}

// combine: the effect of two havocs (in sequence or on joining paths).
func combine(a, b *dirtyRec) *dirtyRec {
	if a == nil {
		return b
	}
	if b == nil || a == b {
		return a
	}
	af, ab := a.flat()
	bf, _ := b.flat()
	return newDirty(af && bf, ab)
}

func (s *State) markDirty(name string, r *dirtyRec) {
	if old, ok := s.dirty[name]; ok && old != r {
		// a second havoc before the first use: the version after it is framed against the
		// version after the first one (which a cloned state may already have materialised)
		s.dirty[name] = &dirtyRec{frame: r.frame, bound: r.bound, made: map[string]*Heap{}, prev: old}
		return
	}
	s.dirty[name] = r
}

func heapSort(k Kind, indexed bool) string {
	if indexed {
		return "(Array Int (Array Int " + k.Sort() + "))"
	}
	return "(Array Int " + k.Sort() + ")"
}

// pathForType gives the heap-name prefix used for objects of type t reached
// through a plain pointer.
func pathForType(t types.Type) string {
	if n, ok := t.(*types.Named); ok {
		if _, ok := n.Underlying().(*types.Struct); ok {
			return typeKey(t)
		}
	}
	if a, ok := t.Underlying().(*types.Array); ok {
		return "Elem#" + typeKey(a.Elem()) + "[]"
	}
	if _, ok := t.Underlying().(*types.Struct); ok {
		return "Anon#" + typeKey(t)
	}
	return "Cell#" + typeKey(t)
}

func elemPath(elem types.Type) string { return "Elem#" + typeKey(elem) + "[]" }

// heap returns the current version of a heap, creating the entry version on
// first use.
func (e *Enc) heap(st *State, name string, k Kind) *Heap {
	indexed := strings.Contains(name, "[]")
	return e.heapS(st, name, heapSort(k, indexed), indexed)
}

func (e *Enc) heapS(st *State, name, srt string, indexed bool) *Heap {
	if h, ok := st.heaps[name]; ok {
		return h
	}
	h := e.entryHeapS(name, srt, indexed)
	d := combine(st.dirty[name], st.allDirty)
	if d != nil {
		if _, ok := d.made[name]; !ok {
			if st.dirty[name] != nil && st.allDirty != nil && st.dirty[name] != st.allDirty {
				st.dirty[name] = d
			}
		}
		h = e.materialise(d, name, h)
	}
	st.heaps[name] = h
	return h
}

// materialise: the heap version described by a dirty record (shared by every
// state that holds the record).
func (e *Enc) materialise(d *dirtyRec, name string, entry *Heap) *Heap {
	if mh, ok := d.made[name]; ok {
		return mh
	}
	base := entry
	if d.prev != nil {
		base = e.materialise(d.prev, name, entry)
	}
	nh := e.newHeapVersion(base, "d")
	if d.frame {
		nh.Prev, nh.Bound, nh.IsFrm = base, d.bound, true
	}
	d.made[name] = nh
	return nh
}

func (e *Enc) entryHeapS(name, srt string, indexed bool) *Heap {
	if h, ok := e.entryHeaps[name]; ok {
		return h
	}
	h := &Heap{Name: name, Term: "H0_" + sanitize(name), Sort: srt, Indexed: indexed}
	e.declare(h.Term, h.Sort)
	e.entryHeaps[name] = h
	return h
}

func (e *Enc) newHeapVersion(old *Heap, tag string) *Heap {
	h := &Heap{Name: old.Name, Sort: old.Sort, Indexed: old.Indexed}
	h.Term = e.fresh("H"+tag+"_"+sanitize(old.Name), old.Sort)
	return h
}

// sel emits (select h base) / (select (select h base) idx) plus the frame
// lemmas that apply to this base.
func (e *Enc) sel(h *Heap, base, idx string) string {
	e.frameLemmas(h, base, map[*Heap]bool{})
	if h.Indexed {
		if idx == "" {
			panic("indexed heap without index: " + h.Name)
		}
		return fmt.Sprintf("(select (select %s %s) %s)", h.Term, base, idx)
	}
	return fmt.Sprintf("(select %s %s)", h.Term, base)
}

func (e *Enc) frameLemmas(h *Heap, base string, seen map[*Heap]bool) {
	if h == nil || seen[h] {
		return
	}
	seen[h] = true
	if h.IsFrm {
		key := h.Term + "@" + base
		if !e.lemmaDone[key] {
			e.lemmaDone[key] = true
			conds := []string{}
			if h.Bound != "" {
				conds = append(conds, fmt.Sprintf("(< %s %s)", base, h.Bound))
			}
			for _, x := range h.Except {
				conds = append(conds, fmt.Sprintf("(not (= %s %s))", base, x))
			}
			e.assert(fmt.Sprintf("(=> %s (= (select %s %s) (select %s %s)))", and(conds...), h.Term, base, h.Prev.Term, base))
		}
	}
	if h.Prev != nil {
		e.frameLemmas(h.Prev, base, seen)
	}
	for _, in := range h.Ins {
		e.frameLemmas(in, base, seen)
	}
}

func (e *Enc) upd(st *State, h *Heap, base, idx, val string) {
	n := &Heap{Name: h.Name, Sort: h.Sort, Indexed: h.Indexed, Prev: h}
	var t string
	if h.Indexed {
		t = fmt.Sprintf("(store %s %s (store (select %s %s) %s %s))", h.Term, base, h.Term, base, idx, val)
	} else {
		t = fmt.Sprintf("(store %s %s %s)", h.Term, base, val)
	}
	n.Term = e.define("H_"+sanitize(h.Name), h.Sort, t)
	st.heaps[h.Name] = n
}

// load reads the value at loc (all leaves).
func (e *Enc) load(st *State, loc *Loc) Val {
	if hasArray(loc.Sh) {
		panic(unsupported("load of array-containing value " + loc.Sh.T.String()))
	}
	ls := leavesOf(loc.Sh)
	ts := make([]string, len(ls))
	for i, l := range ls {
		h := e.heap(st, loc.Path+l.Path, l.K)
		ts[i] = e.sel(h, loc.Base, loc.Idx)
	}
	v := build(loc.Sh, &ts)
	e.entryClosure(loc, ls)
	e.assumeLoaded(st, v)
	return v
}

// entryClosure: at function entry, references stored in objects that existed
// then point to objects that existed then. Stated about the entry heaps, so it
// carries over to the current heap exactly where nothing was written.
func (e *Enc) entryClosure(loc *Loc, ls []leafInfo) {
	if e.entry == nil || e.inQuant > 0 || e.nextEntry != "next0" {
		return
	}
	key := "ec:" + loc.Path + "@" + loc.Base + "@" + loc.Idx
	if e.lemmaDone[key] {
		return
	}
	e.lemmaDone[key] = true
	old := func(name string, k Kind) string {
		indexed := strings.Contains(name, "[]")
		h := e.entryHeapS(name, heapSort(k, indexed), indexed)
		if indexed {
			return fmt.Sprintf("(select (select %s %s) %s)", h.Term, loc.Base, loc.Idx)
		}
		return fmt.Sprintf("(select %s %s)", h.Term, loc.Base)
	}
	pre := fmt.Sprintf("(and (<= 0 %s) (< %s next0))", loc.Base, loc.Base)
	for i, l := range ls {
		switch {
		case strings.HasSuffix(l.Path, "#base"):
			e.assert(fmt.Sprintf("(=> %s (< %s next0))", pre, old(loc.Path+l.Path, l.K)))
		case strings.HasSuffix(l.Path, "#val"):
			typ := old(loc.Path+strings.TrimSuffix(l.Path, "#val")+"#typ", KInt)
			// interface fields of the input AST hold no typed-nil pointers (part of the AST invariant)
			e.assert(fmt.Sprintf("(=> (and %s (isptrtype %s)) (and (< 0 %s) (< %s next0)))", pre, typ, old(loc.Path+l.Path, l.K), old(loc.Path+l.Path, l.K)))
		case l.K == KInt && l.Sh != nil && l.Sh.T != nil:
			switch l.Sh.T.Underlying().(type) {
			case *types.Pointer, *types.Map:
				e.assert(fmt.Sprintf("(=> %s (< %s next0))", pre, old(loc.Path+l.Path, l.K)))
			}
		}
		_ = i
	}
}

// assumeLoaded adds the closure facts for a value read from memory or
// received from outside: references are allocated, integers are in range,
// slice headers are sane.
func (e *Enc) assumeLoaded(st *State, v Val) {
	var rec func(v Val)
	rec = func(v Val) {
		switch v.Sh.K {
		case KInt:
			e.assumeRange(st, v)
		case KSlice:
			b, o, l, c := v.Sub[0].T, v.Sub[1].T, v.Sub[2].T, v.Sub[3].T
			e.assume(fmt.Sprintf("(and (<= 0 %s) (< %s %s) (<= 0 %s) (<= 0 %s) (<= %s %s) (<= (+ %s %s) 281474976710656) (=> (= %s 0) (= %s 0)))", b, b, st.next, o, l, l, c, o, c, b, c))
		case KIface:
			if n, ok := v.Sh.T.(*types.Named); ok {
				if it, ok := n.Underlying().(*types.Interface); ok && n.Obj().Pkg() != nil && n.Obj().Pkg().Path() == repoPkgPath && !e.w.openInterface(it) {
					// sealed interface: only the package's own types implement it
					cs := []string{fmt.Sprintf("(= %s 0)", v.Sub[0].T)}
					for _, tg := range e.w.implementers(it) {
						cs = append(cs, fmt.Sprintf("(= %s %d)", v.Sub[0].T, tg))
					}
					e.assume(or(cs...))
				}
			}
			e.assume(fmt.Sprintf("(and (<= 0 %s) (=> (= %s 0) (= %s 0)) (=> (isptrtype %s) (and (<= 0 %s) (< %s %s))))", v.Sub[0].T, v.Sub[0].T, v.Sub[1].T, v.Sub[0].T, v.Sub[1].T, v.Sub[1].T, st.next))
		case KStruct, KTuple:
			for _, s := range v.Sub {
				rec(s)
			}
		case KStr:
			e.assume(fmt.Sprintf("(and (<= 0 (slen %s)) (<= (slen %s) 281474976710656))", v.T, v.T))
		}
	}
	rec(v)
}

func (e *Enc) assumeRange(st *State, v Val) {
	switch t := v.Sh.T.Underlying().(type) {
	case *types.Basic:
		lo, hi := intRange(v.Sh)
		e.assume(fmt.Sprintf("(and (<= %s %s) (<= %s %s))", lo, v.T, v.T, hi))
	case *types.Pointer, *types.Map, *types.Chan:
		e.assume(fmt.Sprintf("(and (<= 0 %s) (< %s %s))", v.T, v.T, st.next))
		if pt, ok := t.(*types.Pointer); ok {
			e.assumeTypeInv(v, pt.Elem())
		}
	case *types.Signature:
		e.assume(fmt.Sprintf("(<= 0 %s)", v.T))
	}
}

func intRange(sh *Shape) (string, string) {
	b := sh.Bits
	if b == 0 {
		b = 64
	}
	if sh.Signed {
		return "(- " + pow2(b-1) + ")", "(- " + pow2(b-1) + " 1)"
	}
	return "0", "(- " + pow2(b) + " 1)"
}

func pow2(b int) string {
	switch b {
	case 7:
		return "128"
	case 8:
		return "256"
	case 15:
		return "32768"
	case 16:
		return "65536"
	case 31:
		return "2147483648"
	case 32:
		return "4294967296"
	case 63:
		return "9223372036854775808"
	case 64:
		return "18446744073709551616"
	}
	panic("pow2")
}

// storeVal writes all leaves of v at loc.
func (e *Enc) storeVal(st *State, loc *Loc, v Val) {
	if hasArray(loc.Sh) {
		panic(unsupported("store of array-containing value " + loc.Sh.T.String()))
	}
	ls := leavesOf(loc.Sh)
	ts := flatten(v)
	if len(ts) != len(ls) {
		panic(fmt.Sprintf("store: leaf mismatch %d vs %d for %s", len(ts), len(ls), loc.Sh.T))
	}
	for i, l := range ls {
		h := e.heap(st, loc.Path+l.Path, l.K)
		e.upd(st, h, loc.Base, loc.Idx, ts[i])
	}
}

// alloc returns a fresh reference.
func (e *Enc) alloc(st *State) string {
	r := e.define("ref", "Int", st.next)
	st.next = e.define("next", "Int", fmt.Sprintf("(+ %s 1)", r))
	return r
}

// initObject zero-initialises all heaps of a freshly allocated object of type t.
func (e *Enc) initObject(st *State, ref string, t types.Type) {
	sh := shapeOf(t)
	path := pathForType(t)
	var rec func(sh *Shape, p string, indexed bool)
	rec = func(sh *Shape, p string, indexed bool) {
		switch sh.K {
		case KStruct:
			for i, s := range sh.Sub {
				rec(s, p+"."+sh.Names[i], indexed)
			}
		case KArray:
			if indexed {
				panic(unsupported("nested arrays"))
			}
			if strings.HasSuffix(p, "[]") {
				rec(sh.Elem, p, true)
			} else {
				rec(sh.Elem, p+"[]", true)
			}
		default:
			z := zeroVal(sh)
			ls := leavesOf(sh)
			zs := flatten(z)
			for i, l := range ls {
				h := e.heap(st, p+l.Path, l.K)
				n := &Heap{Name: h.Name, Sort: h.Sort, Indexed: h.Indexed, Prev: h}
				if indexed {
					n.Term = e.define("H_"+sanitize(h.Name), h.Sort, fmt.Sprintf("(store %s %s ((as const (Array Int %s)) %s))", h.Term, ref, l.K.Sort(), zs[i]))
				} else {
					n.Term = e.define("H_"+sanitize(h.Name), h.Sort, fmt.Sprintf("(store %s %s %s)", h.Term, ref, zs[i]))
				}
				st.heaps[h.Name] = n
			}
		}
	}
	rec(sh, path, strings.HasSuffix(path, "[]") && sh.K != KArray)
}

// mergeStates joins predecessor states under their edge conditions.
func (e *Enc) mergeStates(conds []string, sts []*State) *State {
	if len(sts) == 1 {
		return sts[0].clone()
	}
	out := &State{heaps: map[string]*Heap{}, ghosts: map[string]Val{}, dirty: map[string]*dirtyRec{}}
	for _, s := range sts {
		out.allDirty = combine(out.allDirty, s.allDirty)
		for k, d := range s.dirty {
			out.dirty[k] = combine(out.dirty[k], d)
		}
	}
	names := map[string]bool{}
	for _, s := range sts {
		for k := range s.heaps {
			names[k] = true
		}
	}
	keys := make([]string, 0, len(names))
	for k := range names {
		keys = append(keys, k)
	}
	sort.Strings(keys)
	for _, k := range keys {
		var hs []*Heap
		same := true
		for _, s := range sts {
			h, ok := s.heaps[k]
			if !ok {
				eh := e.entryHeaps[k]
				h = e.heapS(s, k, eh.Sort, eh.Indexed)
			}
			hs = append(hs, h)
			if h != hs[0] {
				same = false
			}
		}
		if same {
			out.heaps[k] = hs[0]
			continue
		}
		m := e.newHeapVersion(hs[0], "m")
		m.Ins = hs
		for i, h := range hs {
			e.assert(fmt.Sprintf("(=> %s (= %s %s))", conds[i], m.Term, h.Term))
		}
		out.heaps[k] = m
	}
	// next
	same := true
	for _, s := range sts {
		if s.next != sts[0].next {
			same = false
		}
	}
	if same {
		out.next = sts[0].next
	} else {
		n := e.fresh("next", "Int")
		for i, s := range sts {
			e.assert(fmt.Sprintf("(=> %s (= %s %s))", conds[i], n, s.next))
		}
		out.next = n
	}
	// ghosts
	gn := map[string]bool{}
	for _, s := range sts {
		for k := range s.ghosts {
			gn[k] = true
		}
	}
	for k := range gn {
		var vs []Val
		same := true
		for _, s := range sts {
			v, ok := s.ghosts[k]
			if !ok {
				v = e.ghostInit(k)
			}
			vs = append(vs, v)
			if v.T != vs[0].T {
				same = false
			}
		}
		if same {
			out.ghosts[k] = vs[0]
			continue
		}
		n := e.fresh("g_"+sanitize(k), vs[0].Sh.K.Sort())
		for i, v := range vs {
			e.assert(fmt.Sprintf("(=> %s (= %s %s))", conds[i], n, v.T))
		}
		out.ghosts[k] = Val{Sh: vs[0].Sh, T: n}
	}
	return out
}

func and(cs ...string) string {
	var xs []string
	for _, c := range cs {
		if c == "true" || c == "" {
			continue
		}
		if c == "false" {
			return "false"
		}
		xs = append(xs, c)
	}
	switch len(xs) {
	case 0:
		return "true"
	case 1:
		return xs[0]
	}
	return "(and " + strings.Join(xs, " ") + ")"
}

func or(cs ...string) string {
	var xs []string
	for _, c := range cs {
		if c == "false" || c == "" {
			continue
		}
		if c == "true" {
			return "true"
		}
		xs = append(xs, c)
	}
	switch len(xs) {
	case 0:
		return "false"
	case 1:
		return xs[0]
	}
	return "(or " + strings.Join(xs, " ") + ")"
}

func not(c string) string {
	switch c {
	case "true":
		return "false"
	case "false":
		return "true"
	}
	if strings.HasPrefix(c, "(not ") && strings.HasSuffix(c, ")") && balanced(c[5:len(c)-1]) {
		return c[5 : len(c)-1]
	}
	return "(not " + c + ")"
}

func balanced(s string) bool {
	d := 0
	for _, r := range s {
		switch r {
		case '(':
			d++
		case ')':
			d--
			if d < 0 {
				return false
			}
		case ' ':
			if d == 0 {
				return false
			}
		}
	}
	return d == 0
}

func implies(a, b string) string {
	if a == "true" {
		return b
	}
	if b == "true" || a == "false" {
		return "true"
	}
	return "(=> " + a + " " + b + ")"
}

type unsupportedErr struct{ msg string }

func unsupported(msg string) unsupportedErr { return unsupportedErr{msg} }

// assumeTypeInv instantiates the declared type invariant of T for an object
// that already existed at function entry, in the entry state. (Objects under
// construction in this function are not covered.)
func (e *Enc) assumeTypeInv(v Val, elem types.Type) {
	if e.entry == nil || e.invDepth > 1 || e.inQuant > 0 || v.Loc != nil {
		return
	}
	n, ok := elem.(*types.Named)
	if !ok {
		return
	}
	tname := n.Obj().Name()
	if n.Obj().Pkg() != nil && n.Obj().Pkg().Path() != repoPkgPath {
		if !transparentLibStructs[n.Obj().Pkg().Path()+"."+n.Obj().Name()] {
			return
		}
		tname = n.Obj().Pkg().Name() + "." + n.Obj().Name() // trusted invariant of a library struct read field by field
	}
	invs := e.w.contracts.TypeInvs[tname]
	if len(invs) == 0 || n.Obj().Pkg() == nil {
		return
	}
	key := "tinv:" + n.Obj().Name() + "@" + v.T
	if e.lemmaDone[key] {
		return
	}
	e.lemmaDone[key] = true
	e.invDepth++
	defer func() { e.invDepth-- }()
	env := &SpecEnv{vars: map[string]Val{"self": v}, st: e.entry}
	// everything assumed while reading the object's fields in the entry state only holds if the object existed then
	saveReach := e.curReach
	e.curReach = and(saveReach, fmt.Sprintf("(not (= %s 0))", v.T), fmt.Sprintf("(< %s next0)", v.T))
	for _, c := range invs {
		t := e.safeEvalHyp(c, env)
		e.assume(t)
		e.usedTypeInvs[tname+": "+c.Text] = true
	}
	e.curReach = saveReach
}

// assumeLibInv: the trusted invariant of a transparent library struct for an
// object a library call has just returned (current state, not the entry state).
func (e *Enc) assumeLibInv(st *State, v Val, elem types.Type) {
	n, ok := elem.(*types.Named)
	if !ok || n.Obj().Pkg() == nil || !transparentLibStructs[n.Obj().Pkg().Path()+"."+n.Obj().Name()] {
		return
	}
	tname := n.Obj().Pkg().Name() + "." + n.Obj().Name()
	env := &SpecEnv{vars: map[string]Val{"self": v}, st: st}
	saveReach := e.curReach
	e.curReach = and(saveReach, fmt.Sprintf("(not (= %s 0))", v.T))
	for _, c := range e.w.contracts.TypeInvs[tname] {
		e.assume(e.safeEvalHyp(c, env))
		e.usedTypeInvs[tname+" (library result): "+c.Text] = true
	}
	e.curReach = saveReach
}
