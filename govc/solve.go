package main

import (
	"bytes"
	"context"
	"fmt"
	"os"
	"os/exec"
	"path/filepath"
	"regexp"
	"strings"
	"sync"
	"time"
)

// FuncResult is the outcome of encoding one function.
type FuncResult struct {
	Name       string
	Enc        *Enc
	Obls       []*Obligation
	Err        string // engine could not encode the function (out of subset)
	HavocSites int
	HavocNotes []string
	Lines      int
	UsedLib    []string
	UsedCtr    []string
	VacuousAt   []string // obligations whose program point is unreachable under the accumulated assumptions
	Consistency string // result of the final check-sat on the whole background: sat/unknown expected
}

type SolverCfg struct {
	Timeout   time.Duration // per obligation
	Confirm   bool          // thorough: every unsat confirmed by a second solver
	WorkDir   string
	KeepFiles bool
}

var solverCmds = [][]string{
	{"z3-new", "-smt2"},
	{"z3", "-smt2"},
	{"cvc5", "--lang=smt2", "--incremental"},
}

func (e *Enc) prelude() string {
	return preludeHead + e.w.ptrTagsDef() + "\n"
}

// script for a single obligation (standalone).
func (e *Enc) scriptFor(o *Obligation, withModel bool) string {
	var b strings.Builder
	if withModel {
		b.WriteString("(set-option :produce-models true)\n")
	}
	b.WriteString(e.prelude())
	for _, l := range e.lines[:o.At] {
		b.WriteString(l)
		b.WriteByte('\n')
	}
	if o.Cover {
		b.WriteString(fmt.Sprintf("(assert %s)\n", and(o.Reach, o.Goal)))
	} else {
		b.WriteString(fmt.Sprintf("(assert %s)\n", and(o.Reach, not(o.Goal))))
	}
	b.WriteString("(check-sat)\n")
	if withModel && len(o.Probes) > 0 {
		var ts []string
		for _, p := range o.Probes {
			ts = append(ts, p.Term)
		}
		b.WriteString("(get-value (" + strings.Join(ts, " ") + "))\n")
	}
	return b.String()
}

// incremental script for all obligations of a function, in program order.
func (e *Enc) incrementalScript(perQueryMs int) string {
	var b strings.Builder
	b.WriteString(e.prelude())
	at := 0
	seenReach := map[string]bool{}
	for _, o := range e.obls {
		for _, l := range e.lines[at:o.At] {
			b.WriteString(l)
			b.WriteByte('\n')
		}
		at = o.At
		// vacuity guard: the program point of the obligation must be reachable under the assumptions so far
		if !o.Cover && o.Reach != "true" && !seenReach[o.Reach] {
			seenReach[o.Reach] = true
			o.ReachProbe = true
			b.WriteString("(push 1)\n(assert " + o.Reach + ")\n(check-sat)\n(pop 1)\n")
		}
		b.WriteString("(push 1)\n")
		if o.Cover {
			b.WriteString(fmt.Sprintf("(assert %s)\n", and(o.Reach, o.Goal)))
		} else {
			b.WriteString(fmt.Sprintf("(assert %s)\n", and(o.Reach, not(o.Goal))))
		}
		b.WriteString("(check-sat)\n(pop 1)\n")
	}
	// vacuity guard: the whole background must be consistent
	for _, l := range e.lines[at:] {
		b.WriteString(l)
		b.WriteByte('\n')
	}
	b.WriteString("(check-sat)\n")
	return b.String()
}

func runSolver(ctx context.Context, cmd []string, script string, timeout time.Duration, extra ...string) (string, float64) {
	args := append([]string{}, cmd[1:]...)
	switch cmd[0] {
	case "z3-new", "z3":
		args = append(args, fmt.Sprintf("-T:%d", int(timeout.Seconds())+1), "-in")
	case "cvc5":
		args = append(args, fmt.Sprintf("--tlimit=%d", timeout.Milliseconds()))
	}
	args = append(args, extra...)
	cctx, cancel := context.WithTimeout(ctx, timeout+3*time.Second)
	defer cancel()
	c := exec.CommandContext(cctx, cmd[0], args...)
	c.Stdin = strings.NewReader(script)
	var out bytes.Buffer
	c.Stdout = &out
	c.Stderr = &out
	t0 := time.Now()
	_ = c.Run()
	return out.String(), time.Since(t0).Seconds()
}

var resRe = regexp.MustCompile(`(?m)^(sat|unsat|unknown|timeout)\s*$`)

func firstResult(out string) string {
	if strings.Contains(out, "(error") && !strings.Contains(out, "model is not available") {
		return "error" // malformed script: never a verdict
	}
	m := resRe.FindStringSubmatch(out)
	if m == nil {
		if strings.Contains(out, "timeout") || strings.Contains(out, "interrupted") {
			return "timeout"
		}
		return "error"
	}
	return m[1]
}

// solveFunc discharges the obligations of one function: first one incremental
// z3-new run; everything that is not unsat there is raced standalone on all
// three solvers.
func solveFunc(fr *FuncResult, cfg SolverCfg) {
	e := fr.Enc
	if e == nil || len(fr.Obls) == 0 {
		return
	}
	perMs := int(cfg.Timeout.Milliseconds())
	script := "(set-option :timeout " + fmt.Sprint(perMs) + ")\n" + e.incrementalScript(perMs)
	total := cfg.Timeout*time.Duration(len(fr.Obls)) + 5*time.Second
	if total > 10*time.Minute {
		total = 10 * time.Minute
	}
	out, secs := runSolver(context.Background(), solverCmds[0], script, total)
	results := resRe.FindAllStringSubmatch(out, -1)
	if strings.Contains(out, "(error") {
		// a malformed script is an engine bug: nothing from this run is believed
		results = nil
		fmt.Fprintf(os.Stderr, "govc: solver reported an error for %s: %s\n", fr.Name, firstLine(out[strings.Index(out, "(error"):]))
	}
	if cfg.KeepFiles {
		os.WriteFile(filepath.Join(cfg.WorkDir, sanitize(fr.Name)+".inc.smt2"), []byte(script), 0o644)
	}
	per := secs / float64(len(fr.Obls))
	nProbes := 0
	for _, o := range fr.Obls {
		if o.ReachProbe {
			nProbes++
		}
	}
	if len(results) == len(fr.Obls)+nProbes+1 {
		fr.Consistency = results[len(results)-1][1]
	} else {
		fr.Consistency = "not-run"
	}
	ri := 0
	for _, o := range fr.Obls {
		if o.ReachProbe {
			if ri < len(results) && results[ri][1] == "unsat" && o.Kind != "panic" {
				fr.VacuousAt = append(fr.VacuousAt, o.Name)
				if cfg.KeepFiles {
					var b strings.Builder
					b.WriteString(e.prelude())
					for _, l := range e.lines[:o.At] {
						b.WriteString(l + "\n")
					}
					b.WriteString("(assert " + o.Reach + ")\n(check-sat)\n")
					os.WriteFile(filepath.Join(cfg.WorkDir, sanitize(o.Name)+".vacuous.smt2"), []byte(b.String()), 0o644)
				}
			}
			ri++
		}
		if ri < len(results) && len(results) >= len(fr.Obls)+nProbes {
			o.Status = results[ri][1]
			o.Solver = "z3-new(incremental)"
			o.Secs = per
		} else {
			o.Status = "error"
			o.Output = tail(out, 400)
		}
		ri++
	}
	var wg sync.WaitGroup
	sem := make(chan struct{}, 4)
	for _, o := range fr.Obls {
		want := "unsat"
		if o.Cover {
			want = "sat"
		}
		if o.Status == want && !(cfg.Confirm && !o.Cover) {
			continue
		}
		wg.Add(1)
		sem <- struct{}{}
		go func(o *Obligation, first string) {
			defer wg.Done()
			defer func() { <-sem }()
			raceStandalone(e, o, cfg, first)
		}(o, o.Status)
	}
	wg.Wait()
}

// raceStandalone runs the three solvers on one obligation. For a proof
// obligation: first unsat wins; sat only with a model. In confirm mode an
// unsat from the incremental run needs a second solver's unsat.
func raceStandalone(e *Enc, o *Obligation, cfg SolverCfg, first string) {
	script := e.scriptFor(o, true)
	if cfg.KeepFiles {
		os.WriteFile(filepath.Join(cfg.WorkDir, sanitize(o.Name)+".smt2"), []byte(script), 0o644)
	}
	type res struct {
		solver string
		status string
		out    string
		secs   float64
	}
	ctx, cancel := context.WithCancel(context.Background())
	defer cancel()
	ch := make(chan res, len(solverCmds))
	for _, cmd := range solverCmds {
		go func(cmd []string) {
			s := script
			if cmd[0] == "cvc5" {
				// cvc5 wants produce-models before set-logic (it is: first line) and rejects nothing else here
			}
			out, secs := runSolver(ctx, cmd, s, cfg.Timeout)
			ch <- res{cmd[0], firstResult(out), out, secs}
		}(cmd)
	}
	want := "unsat"
	if o.Cover {
		want = "sat"
	}
	var got []res
	confirmed := 0
	if first == want && !o.Cover {
		confirmed = 0 // incremental z3-new result counts as the first vote only if another solver agrees
	}
	var best *res
	for range solverCmds {
		r := <-ch
		got = append(got, r)
		if r.status == want {
			confirmed++
			if best == nil {
				rr := r
				best = &rr
			}
			if !cfg.Confirm || o.Cover || confirmed >= 2 || (first == want && r.solver != "z3-new") {
				break
			}
		}
	}
	cancel()
	if best != nil && (!cfg.Confirm || o.Cover || confirmed >= 2 || first == want) {
		o.Status, o.Solver, o.Secs = best.status, best.solver, best.secs
		if cfg.Confirm && !o.Cover {
			o.Solver = best.solver + "+confirmed"
		}
		return
	}
	// not discharged: prefer a sat answer (with model) for reporting
	o.Status = "unknown"
	for _, r := range got {
		if r.status == "error" && r.solver != "cvc5" { // cvc5 1.0 rejects some z3-accepted terms (const arrays over uninterpreted sorts): an abstention
			o.Status, o.Solver, o.Output = "error", r.solver, tail(r.out, 600)
			fmt.Fprintf(os.Stderr, "govc: solver error on %s: %s\n", o.Name, firstLine(r.out))
			return
		}
	}
	for _, r := range got {
		if r.status == "sat" && !o.Cover {
			o.Status, o.Solver, o.Secs, o.Output = "sat", r.solver, r.secs, tail(r.out, 4000)
			o.Model = parseValues(r.out)
			return
		}
	}
	for _, r := range got {
		if r.status == "timeout" || r.status == "unknown" || r.status == "unsat" {
			o.Status, o.Solver, o.Secs, o.Output = r.status, r.solver, r.secs, tail(r.out, 1000)
			if r.status != "unsat" {
				break
			}
		}
	}
	if o.Cover && o.Status == "unsat" {
		o.Output = "cover unreachable: " + o.Output
	}
}

func tail(s string, n int) string {
	if len(s) <= n {
		return s
	}
	return s[len(s)-n:]
}

// parseValues reads a (get-value ...) answer: ((term value) ...)
func parseValues(out string) map[string]string {
	m := map[string]string{}
	i := strings.Index(out, "((")
	if i < 0 {
		return m
	}
	s := out[i+1:]
	depth := 0
	start := -1
	for j := 0; j < len(s); j++ {
		switch s[j] {
		case '(':
			if depth == 0 {
				start = j
			}
			depth++
		case ')':
			depth--
			if depth == 0 && start >= 0 {
				pair := s[start+1 : j]
				k, v := splitPair(pair)
				m[k] = v
				start = -1
			}
			if depth < 0 {
				return m
			}
		}
	}
	return m
}

func splitPair(p string) (string, string) {
	p = strings.TrimSpace(p)
	if strings.HasPrefix(p, "(") {
		j := matchClose(p, 0)
		return strings.TrimSpace(p[:j+1]), strings.TrimSpace(p[j+1:])
	}
	i := strings.IndexAny(p, " \n\t")
	if i < 0 {
		return p, ""
	}
	return p[:i], strings.TrimSpace(p[i:])
}
