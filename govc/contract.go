package main

// Contracts live in /repo/verif_contracts*.go (build tag verif) as comment
// blocks:
//
//   //@ func (*Parser).scan
//   //@   props C07 C04            properties whose checks include this function
//   //@   safety C04               properties that own the generated safety obligations
//   //@   tracks ovf
//   //@   requires [C07] p != nil
//   //@   ensures  [C07] tok != BOUNDPARAM ==> ...
//   //@   modifies fresh, p.*, reader.*
//   //@   loop 1 invariant 0 <= i && i <= len(a)
//   //@   loop 1 step d == old(d) + n
//   //@   loop 1 decreases len(a) - i
//   //@   assume <expr>            (trusted fact at entry; listed in evidence)
//   //@   trusted                  (contract assumed, body not verified)
//   //@   inline                   (callers inline the body instead of using the contract)
//
//   //@ ghost name Sort            ghost state variable
//   //@ lemma name [Cxx] : <closed formula over spec functions>
//
// A clause continues on following lines that start with "//@     |".

import (
	"fmt"
	"go/ast"
	"go/parser"
	"go/token"
	"os"
	"path/filepath"
	"regexp"
	"sort"
	"strings"
)

type Clause struct {
	Kind  string // requires ensures invariant step decreases assume
	Label string // optional "@label" right after the kind / tag: names the obligations of this clause
	Text  string
	Expr  ast.Expr
	Props []string
	File  string
	Line  int
	Loop  int
}

type FuncContract struct {
	Name        string
	Props       []string
	SafetyProps []string
	Requires    []*Clause
	Ensures     []*Clause
	Claims      []*Clause // checked like ensures, never assumed at call sites (clauses with known findings)
	Assumes     []*Clause
	Loops       map[int][]*Clause
	Modifies    []string
	HasModifies bool
	TracksOvf   bool
	Trusted     bool
	Inline      bool
	StoreInvs   []StoreInv // obligations at every store to a given field inside this function
	Skip        string // deliberately not under contract (reason); callers see no contract
	EstablishesGlobalInvs bool // package initialiser: every globalinv is a post-condition
	NoBody      bool // only contract used at call sites; body not checked in this run
	File        string
	Line        int
	Vars        map[string]string // spec-local names: alias -> expression text
	EntryLets   [][2]string         // name, expression: evaluated once in the entry state
	FrameProps  []string            // properties owning the frame obligations
	FnParams    map[string][]string // function-typed parameter -> heaps it may write
	NoRead      []string            // heaps (T.f) that neither the function nor anything it calls may load
	Unproved    [][2]string         // obligation-name substring, reason: generated obligation is out of reach and only assumed (listed, never counted)
	ASTParams   bool                // assume the AST invariant for interface / slice parameters
	FnType      string              // non-empty: contract of every function value of this signature
	ParamNames  []string            // for fntype contracts: names of the parameters
}

type Lemma struct {
	Name   string
	Props  []string
	Text   string
	Vars   []LemmaVar
	Expr   ast.Expr
	File   string
	Line   int
	Hyps   []string
	Covers bool
}

type LemmaVar struct{ Name, Type string }

type GhostDecl struct {
	Name string
	Sort string
	Sh   *Shape
}

type ReplacerSpec struct {
	Global string
	Quote  string // Go char literal
	Props  []string
	File   string
	Line   int
}

type StoreInv struct {
	Path string // T.f
	C    *Clause
}

type PackageInv struct {
	Kind  string // noglobalwrites
	Props []string
	File  string
	Line  int
}

type Contracts struct {
	Locals map[string][]string // function -> "name|type" of its locals in declaration order when the contracts were written
	PackageInvs []*PackageInv
	TypeInvs   map[string][]*Clause
	Replacers  []*ReplacerSpec
	GlobalInvs []*Clause
	Funcs  map[string]*FuncContract
	Order  []string
	Lemmas []*Lemma
	Ghosts map[string]*GhostDecl
}

var tagRe = regexp.MustCompile(`^\[([A-Z0-9, ]+)\]\s*`)

func loadContracts(dir string, extra map[string]string) (*Contracts, error) {
	files, _ := filepath.Glob(filepath.Join(dir, "verif_contracts*.go"))
	sort.Strings(files)
	var xs []string
	for k := range extra {
		xs = append(xs, k)
	}
	sort.Strings(xs)
	files = append(files, xs...)
	cs := &Contracts{Funcs: map[string]*FuncContract{}, Ghosts: map[string]*GhostDecl{}, TypeInvs: map[string][]*Clause{}}
	for _, fn := range files {
		var data []byte
		if txt, ok := extra[fn]; ok {
			data = []byte(txt)
		} else {
			var err error
			data, err = os.ReadFile(fn)
			if err != nil {
				return nil, err
			}
		}
		var cur *FuncContract
		var last *Clause
		var lastLemma *Lemma
		for i, line := range strings.Split(string(data), "\n") {
			t := strings.TrimSpace(line)
			if !strings.HasPrefix(t, "//@") {
				continue
			}
			t = strings.TrimSpace(t[3:])
			if t == "" {
				continue
			}
			if strings.HasPrefix(t, "|") {
				cont := strings.TrimSpace(t[1:])
				if last != nil {
					last.Text += " " + cont
				} else if lastLemma != nil {
					lastLemma.Text += " " + cont
				}
				continue
			}
			last, lastLemma = nil, nil
			word, rest := splitWord(t)
			switch word {
			case "func":
				name := strings.TrimSpace(rest)
				if _, dup := cs.Funcs[name]; dup {
					return nil, fmt.Errorf("%s:%d: duplicate contract for %s", fn, i+1, name)
				}
				cur = &FuncContract{Name: name, Loops: map[int][]*Clause{}, File: filepath.Base(fn), Line: i + 1, Vars: map[string]string{}}
				if strings.HasPrefix(name, "fntype:") {
					cur.FnType = strings.TrimSpace(strings.TrimPrefix(name, "fntype:"))
				}
				cs.Funcs[name] = cur
				cs.Order = append(cs.Order, name)
			case "replacer":
				// replacer qsReplacer [C06] quote '\''
				g, r := splitWord(rest)
				r = strings.TrimSpace(r)
				rp := &ReplacerSpec{Global: g, File: filepath.Base(fn), Line: i + 1}
				if m := tagRe.FindStringSubmatch(r); m != nil {
					rp.Props = splitProps(m[1])
					r = r[len(m[0]):]
				}
				rp.Quote = strings.TrimSpace(strings.TrimPrefix(strings.TrimSpace(r), "quote"))
				cs.Replacers = append(cs.Replacers, rp)
				cur = nil
			case "locals":
				// locals <func> : name|type name|type ...   (snapshot of the function's local variables, in declaration order)
				fname, r := rest, ""
				if k := strings.Index(rest, " : "); k >= 0 {
					fname, r = strings.TrimSpace(rest[:k]), rest[k+3:]
				}
				if cs.Locals == nil {
					cs.Locals = map[string][]string{}
				}
				cs.Locals[fname] = strings.Fields(r)
				cur = nil
			case "packageinv":
				kind, r := splitWord(rest)
				pi := &PackageInv{Kind: kind, File: filepath.Base(fn), Line: i + 1}
				if m := tagRe.FindStringSubmatch(strings.TrimSpace(r)); m != nil {
					pi.Props = splitProps(m[1])
				}
				cs.PackageInvs = append(cs.PackageInvs, pi)
				cur = nil
			case "typeinv":
				// typeinv T : expr over self
				tn, r := splitWord(rest)
				r = strings.TrimSpace(strings.TrimPrefix(strings.TrimSpace(r), ":"))
				c := &Clause{Kind: "typeinv", Text: r, File: filepath.Base(fn), Line: i + 1}
				cs.TypeInvs[tn] = append(cs.TypeInvs[tn], c)
				last = c
				cur = nil
				continue
			case "globalinv":
				c := &Clause{Kind: "globalinv", Text: strings.TrimSpace(rest), File: filepath.Base(fn), Line: i + 1}
				ex, err := parseSpec(c.Text)
				if err != nil {
					return nil, fmt.Errorf("%s:%d: %v", fn, i+1, err)
				}
				c.Expr = ex
				cs.GlobalInvs = append(cs.GlobalInvs, c)
				cur = nil
			case "ghost":
				n, s := splitWord(rest)
				cs.Ghosts[n] = &GhostDecl{Name: n, Sort: strings.TrimSpace(s)}
			case "lemma":
				n, r := splitWord(rest)
				lm := &Lemma{Name: n, File: filepath.Base(fn), Line: i + 1}
				r = strings.TrimSpace(r)
				if m := tagRe.FindStringSubmatch(r); m != nil {
					lm.Props = splitProps(m[1])
					r = r[len(m[0]):]
				}
				lm.Text = r
				cs.Lemmas = append(cs.Lemmas, lm)
				lastLemma = lm
				cur = nil
			default:
				if cur == nil {
					return nil, fmt.Errorf("%s:%d: clause outside func block: %s", fn, i+1, t)
				}
				switch word {
				case "props":
					cur.Props = splitProps(rest)
				case "safety":
					cur.SafetyProps = splitProps(rest)
				case "noread":
					for _, m := range strings.Split(rest, ",") {
						if m = strings.TrimSpace(m); m != "" {
							cur.NoRead = append(cur.NoRead, m)
						}
					}
				case "unproved":
					pat, reason := rest, ""
					if k := strings.Index(rest, " : "); k >= 0 {
						pat, reason = rest[:k], rest[k+3:]
					}
					cur.Unproved = append(cur.Unproved, [2]string{strings.TrimSpace(pat), strings.TrimSpace(reason)})
				case "params":
					cur.ParamNames = strings.Fields(rest)
				case "frameprops":
					cur.FrameProps = splitProps(rest)
				case "fnparam":
					n, r := splitWord(rest)
					r = strings.TrimSpace(strings.TrimPrefix(strings.TrimSpace(r), "modifies"))
					if cur.FnParams == nil {
						cur.FnParams = map[string][]string{}
					}
					cur.FnParams[n] = []string{}
					for _, m := range strings.Split(r, ",") {
						if m = strings.TrimSpace(m); m != "" && m != "nothing" {
							cur.FnParams[n] = append(cur.FnParams[n], m)
						}
					}
				case "tracks":
					if strings.TrimSpace(rest) == "ovf" {
						cur.TracksOvf = true
					}
				case "storeinv":
					// storeinv T.f [Cxx] @label : expr over self (the object written, *T) and val (the value stored)
					path, r := splitWord(rest)
					c := &Clause{Kind: "storeinv", File: filepath.Base(fn), Line: i + 1}
					r = strings.TrimSpace(r)
					if m := tagRe.FindStringSubmatch(r); m != nil {
						c.Props = splitProps(m[1])
						r = r[len(m[0]):]
					}
					if strings.HasPrefix(r, "@") {
						lb, rest2 := splitWord(r)
						c.Label, r = strings.TrimPrefix(lb, "@"), strings.TrimSpace(rest2)
					}
					c.Text = strings.TrimSpace(strings.TrimPrefix(strings.TrimSpace(r), ":"))
					cur.StoreInvs = append(cur.StoreInvs, StoreInv{Path: path, C: c})
					last = c
				case "skip":
					cur.Skip = strings.TrimSpace(strings.TrimPrefix(strings.TrimSpace(rest), ":"))
					if cur.Skip == "" {
						cur.Skip = "no reason given"
					}
				case "establishes":
					if strings.TrimSpace(rest) == "globalinvs" {
						cur.EstablishesGlobalInvs = true
					}
				case "astparams":
					cur.ASTParams = true
				case "trusted":
					cur.Trusted = true
				case "inline":
					cur.Inline = true
				case "modifies":
					cur.HasModifies = true
					for _, m := range strings.Split(rest, ",") {
						m = strings.TrimSpace(m)
						if m == "@ast" {
							// read-only operation on an AST: fresh objects, library buffers, captured result flags and the package's private visitor helpers
							cur.Modifies = append(cur.Modifies, "fresh", "Lib#content", "Cell#bool", "Cell#error", "binaryExprNameVisitor", "containsVarRefVisitor", "validateField", "Elem#string[]")
							continue
						}
						if m != "" && m != "nothing" {
							cur.Modifies = append(cur.Modifies, m)
						}
					}
				case "entrylet":
					n, r := splitWord(rest)
					r = strings.TrimSpace(strings.TrimPrefix(strings.TrimSpace(r), "="))
					cur.EntryLets = append(cur.EntryLets, [2]string{n, r})
				case "let":
					n, r := splitWord(rest)
					r = strings.TrimSpace(strings.TrimPrefix(strings.TrimSpace(r), "="))
					cur.Vars[n] = r
				case "requires", "ensures", "assume", "claims":
					c := &Clause{Kind: word, File: filepath.Base(fn), Line: i + 1}
					r := strings.TrimSpace(rest)
					if m := tagRe.FindStringSubmatch(r); m != nil {
						c.Props = splitProps(m[1])
						r = r[len(m[0]):]
					}
					if strings.HasPrefix(r, "@") {
						lb, rest2 := splitWord(r)
						c.Label, r = strings.TrimPrefix(lb, "@"), strings.TrimSpace(rest2)
					}
					c.Text = r
					switch word {
					case "requires":
						cur.Requires = append(cur.Requires, c)
					case "ensures":
						cur.Ensures = append(cur.Ensures, c)
					case "claims":
						cur.Claims = append(cur.Claims, c)
					default:
						cur.Assumes = append(cur.Assumes, c)
					}
					last = c
				case "loop":
					ns, r := splitWord(rest)
					var n int
					if ns == "*" {
						n = 0 // applies to every loop of the function
					} else {
						fmt.Sscanf(ns, "%d", &n)
					}
					kind, r2 := splitWord(strings.TrimSpace(r))
					c := &Clause{Kind: kind, File: filepath.Base(fn), Line: i + 1, Loop: n}
					r2 = strings.TrimSpace(r2)
					if m := tagRe.FindStringSubmatch(r2); m != nil {
						c.Props = splitProps(m[1])
						r2 = r2[len(m[0]):]
					}
					if strings.HasPrefix(r2, "@") {
						lb, rest2 := splitWord(r2)
						c.Label, r2 = strings.TrimPrefix(lb, "@"), strings.TrimSpace(rest2)
					}
					c.Text = r2
					cur.Loops[n] = append(cur.Loops[n], c)
					last = c
				default:
					return nil, fmt.Errorf("%s:%d: unknown clause %q", fn, i+1, word)
				}
			}
		}
	}
	// parse expressions
	for _, fc := range cs.Funcs {
		all := append(append(append([]*Clause{}, fc.Requires...), fc.Ensures...), fc.Assumes...)
		all = append(all, fc.Claims...)
		for _, si := range fc.StoreInvs {
			all = append(all, si.C)
		}
		for _, l := range fc.Loops {
			all = append(all, l...)
		}
		for _, c := range all {
			if len(c.Props) == 0 {
				c.Props = fc.Props
			}
			ex, err := parseSpec(c.Text)
			if err != nil {
				return nil, fmt.Errorf("%s:%d: %v in %q", c.File, c.Line, err, c.Text)
			}
			c.Expr = ex
		}
		if len(fc.SafetyProps) == 0 {
			fc.SafetyProps = nil
		}
	}
	for _, l := range cs.TypeInvs {
		for _, c := range l {
			ex, err := parseSpec(c.Text)
			if err != nil {
				return nil, fmt.Errorf("%s:%d: %v in %q", c.File, c.Line, err, c.Text)
			}
			c.Expr = ex
		}
	}
	for _, lm := range cs.Lemmas {
		// "forall x Int, y Int :: body"
		txt := lm.Text
		if i := strings.Index(txt, "::"); i >= 0 && strings.HasPrefix(strings.TrimSpace(txt), "forall") {
			hdr := strings.TrimSpace(strings.TrimPrefix(strings.TrimSpace(txt[:i]), "forall"))
			for _, d := range strings.Split(hdr, ",") {
				n, s := splitWord(strings.TrimSpace(d))
				lm.Vars = append(lm.Vars, LemmaVar{n, strings.TrimSpace(s)})
			}
			txt = txt[i+2:]
		}
		ex, err := parseSpec(txt)
		if err != nil {
			return nil, fmt.Errorf("%s:%d: %v in lemma %q", lm.File, lm.Line, err, lm.Text)
		}
		lm.Expr = ex
	}
	return cs, nil
}

func splitWord(s string) (string, string) {
	s = strings.TrimSpace(s)
	i := strings.IndexAny(s, " \t")
	if i < 0 {
		return s, ""
	}
	return s[:i], s[i+1:]
}

func splitProps(s string) []string {
	var out []string
	for _, p := range strings.FieldsFunc(s, func(r rune) bool { return r == ',' || r == ' ' }) {
		if p != "" {
			out = append(out, p)
		}
	}
	return out
}

// parseSpec parses a contract expression: Go expression syntax plus "==>".
func parseSpec(text string) (ast.Expr, error) {
	x := xformImplies(text)
	return parser.ParseExprFrom(token.NewFileSet(), "", x, 0)
}

// xformImplies rewrites a ==> b (right associative, lowest precedence) into
// implies__(a, b), recursively inside brackets.
func xformImplies(s string) string {
	depth := 0
	inStr := rune(0)
	for i := 0; i < len(s); i++ {
		c := s[i]
		if inStr != 0 {
			if c == '\\' {
				i++
			} else if rune(c) == inStr {
				inStr = 0
			}
			continue
		}
		switch c {
		case '"', '\'', '`':
			inStr = rune(c)
		case '(', '[', '{':
			depth++
		case ')', ']', '}':
			depth--
		case '=':
			if depth == 0 && strings.HasPrefix(s[i:], "==>") {
				return "implies__(" + xformImplies(s[:i]) + ", " + xformImplies(s[i+3:]) + ")"
			}
		}
	}
	// no top-level ==>: recurse into bracket groups
	var out strings.Builder
	for i := 0; i < len(s); i++ {
		c := s[i]
		if c == '"' || c == '\'' || c == '`' {
			j := i + 1
			for j < len(s) && s[j] != c {
				if s[j] == '\\' {
					j++
				}
				j++
			}
			out.WriteString(s[i:min(j+1, len(s))])
			i = j
			continue
		}
		if c == '(' || c == '[' {
			j := matchClose(s, i)
			inner := s[i+1 : j]
			parts := splitTopCommas(inner)
			out.WriteByte(c)
			for k, p := range parts {
				if k > 0 {
					out.WriteString(",")
				}
				out.WriteString(xformImplies(p))
			}
			out.WriteByte(s[j])
			i = j
			continue
		}
		out.WriteByte(c)
	}
	return out.String()
}

func matchClose(s string, i int) int {
	depth := 0
	inStr := rune(0)
	for j := i; j < len(s); j++ {
		c := s[j]
		if inStr != 0 {
			if c == '\\' {
				j++
			} else if rune(c) == inStr {
				inStr = 0
			}
			continue
		}
		switch c {
		case '"', '\'', '`':
			inStr = rune(c)
		case '(', '[', '{':
			depth++
		case ')', ']', '}':
			depth--
			if depth == 0 {
				return j
			}
		}
	}
	return len(s) - 1
}

func splitTopCommas(s string) []string {
	var parts []string
	depth := 0
	inStr := rune(0)
	start := 0
	for j := 0; j < len(s); j++ {
		c := s[j]
		if inStr != 0 {
			if c == '\\' {
				j++
			} else if rune(c) == inStr {
				inStr = 0
			}
			continue
		}
		switch c {
		case '"', '\'', '`':
			inStr = rune(c)
		case '(', '[', '{':
			depth++
		case ')', ']', '}':
			depth--
		case ',':
			if depth == 0 {
				parts = append(parts, s[start:j])
				start = j + 1
			}
		}
	}
	parts = append(parts, s[start:])
	return parts
}

func hasProp(props []string, p string) bool {
	for _, x := range props {
		if x == p {
			return true
		}
	}
	return false
}
