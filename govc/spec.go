package main

import (
	"fmt"
	"os"
	"go/ast"
	"go/constant"
	"go/token"
	"go/types"
	"strconv"
	"strings"

	"golang.org/x/tools/go/ssa"
)

// SpecEnv is the context in which a contract expression is evaluated.
type SpecEnv struct {
	noRename bool
	paramsFirst bool // post-conditions: parameter names mean the entry values even when the body reassigns them
	params  map[string]Val // parameters of the function under contract (entry values); a loop-carried variable of the same name shadows them
	vars    map[string]Val
	st      *State
	old     *State
	oldVars map[string]Val
	f       *frame
	blk     *ssa.BasicBlock // for resolving locals: value at the end of blk
	atHead  bool            // resolve at the beginning of blk (loop head)
	fc      *FuncContract
	lets    map[string]bool // guard against recursive lets
}

func (env *SpecEnv) with(name string, v Val) *SpecEnv {
	n := *env
	n.vars = map[string]Val{}
	for k, x := range env.vars {
		n.vars[k] = x
	}
	n.vars[name] = v
	return &n
}

type specErr struct{ msg string }

func specFail(format string, a ...interface{}) { panic(specErr{fmt.Sprintf(format, a...)}) }

func (e *Enc) evalBool(x ast.Expr, env *SpecEnv) string {
	v := e.evalSpec(x, env)
	if v.Sh.K != KBool {
		specFail("expected boolean expression, got %s", v.Sh.T)
	}
	return v.T
}

func (e *Enc) evalSpec(x ast.Expr, env *SpecEnv) Val {
	switch n := x.(type) {
	case *ast.ParenExpr:
		return e.evalSpec(n.X, env)
	case *ast.BasicLit:
		switch n.Kind {
		case token.INT:
			v, err := strconv.ParseInt(n.Value, 0, 64)
			if err != nil {
				u, err2 := strconv.ParseUint(n.Value, 0, 64)
				if err2 != nil {
					specFail("bad int %s", n.Value)
				}
				return intVal(fmt.Sprintf("%d", u))
			}
			return intVal(smtInt(v))
		case token.CHAR:
			r, _, _, err := strconv.UnquoteChar(n.Value[1:len(n.Value)-1], '\'')
			if err != nil {
				specFail("bad char %s", n.Value)
			}
			return intVal(fmt.Sprintf("%d", r))
		case token.STRING:
			s, err := strconv.Unquote(n.Value)
			if err != nil {
				specFail("bad string %s", n.Value)
			}
			return strVal(e.strLit(s))
		case token.FLOAT:
			f, _ := strconv.ParseFloat(n.Value, 64)
			return Val{Sh: floatShape, T: e.floatLit(f)}
		}
	case *ast.Ident:
		return e.specIdent(n.Name, env)
	case *ast.UnaryExpr:
		if n.Op == token.NOT {
			e.pol = -e.pol
			v := e.evalSpec(n.X, env)
			e.pol = -e.pol
			return boolVal(not(v.T))
		}
		v := e.evalSpec(n.X, env)
		switch n.Op {
		case token.NOT:
			return boolVal(not(v.T))
		case token.SUB:
			if v.Sh.K == KFloat {
				return Val{Sh: v.Sh, T: fmt.Sprintf("(fneg %s)", v.T)}
			}
			return Val{Sh: v.Sh, T: fmt.Sprintf("(- %s)", v.T)}
		case token.MUL:
		}
	case *ast.StarExpr:
		p := e.evalSpec(n.X, env)
		return e.specLoad(p, env)
	case *ast.BinaryExpr:
		return e.specBinary(n, env)
	case *ast.SelectorExpr:
		return e.specSelector(n, env)
	case *ast.IndexExpr:
		return e.specIndex(n, env)
	case *ast.TypeAssertExpr:
		v := e.evalSpec(n.X, env)
		t := e.w.resolveType(n.Type)
		if v.Sh.K != KIface {
			specFail("type assertion on non-interface")
		}
		return e.unbox(v, t)
	case *ast.CallExpr:
		return e.specCall(n, env)
	}
	specFail("unsupported spec expression %T", x)
	panic("unreachable")
}

func isParamName(fn *ssa.Function, name string) bool {
	for _, p := range fn.Params {
		if p.Name() == name {
			return true
		}
	}
	// named results are declared in the signature too: a body-local of the same name is a shadow
	if rs := fn.Signature.Results(); rs != nil {
		for i := 0; i < rs.Len(); i++ {
			if rs.At(i).Name() == name {
				return true
			}
		}
	}
	return false
}

func (e *Enc) specIdent(name string, env *SpecEnv) Val {
	switch name {
	case "true":
		return boolVal("true")
	case "false":
		return boolVal("false")
	case "nil":
		return Val{Sh: &Shape{K: KInt, T: types.Typ[types.UntypedNil]}, T: "0"}
	}
	// the snapshot position wins over the name: after `ep -> privs, privs -> subPrivs` the clause's
	// `privs` is the variable now called subPrivs, although a variable called privs still exists
	if env.f != nil && !env.noRename && e.w.uniqueInSnapshot(env.f.fn, name) && !isParamName(env.f.fn, name) {
		if alt := e.w.renamedLocal(env.f.fn, name); alt != "" && alt != name {
			ne := *env
			ne.noRename = true
			e.renamesUsed[e.w.funcName(env.f.fn)+": "+name+" -> "+alt] = true
			return e.specIdent(alt, &ne)
		}
	}
	if v, ok := env.vars[name]; ok {
		return v
	}
	if v, ok := e.entryLets[name]; ok {
		return v
	}
	if env.fc != nil {
		if txt, ok := env.fc.Vars[name]; ok {
			if env.lets[name] {
				specFail("recursive let %s", name)
			}
			ex, err := parseSpec(txt)
			if err != nil {
				specFail("let %s: %v", name, err)
			}
			n := *env
			n.lets = map[string]bool{name: true}
			for k := range env.lets {
				n.lets[k] = true
			}
			return e.evalSpec(ex, &n)
		}
	}
	if env.paramsFirst {
		if v, ok := env.params[name]; ok {
			return v
		}
	}
	if env.f != nil && env.blk != nil {
		if v, ok := e.resolveLocal(env.f, env.blk, name, env.atHead, env.st); ok {
			return v
		}
	}
	if v, ok := env.params[name]; ok {
		return v
	}
	// package-level constant / variable
	if obj := e.w.pkg.Pkg.Scope().Lookup(name); obj != nil {
		switch o := obj.(type) {
		case *types.Const:
			sh := shapeOf(o.Type())
			switch sh.K {
			case KInt:
				if v, ok := constant.Int64Val(constant.ToInt(o.Val())); ok {
					return Val{Sh: sh, T: smtInt(v)}
				}
				if v, ok := constant.Uint64Val(constant.ToInt(o.Val())); ok {
					return Val{Sh: sh, T: fmt.Sprintf("%d", v)}
				}
			case KStr:
				return Val{Sh: sh, T: e.strLit(constant.StringVal(o.Val()))}
			case KBool:
				if constant.BoolVal(o.Val()) {
					return boolVal("true")
				}
				return boolVal("false")
			case KFloat:
				f, _ := constant.Float64Val(o.Val())
				return Val{Sh: sh, T: e.floatLit(f)}
			}
		case *types.Var:
			if g, ok := e.w.pkg.Members[name].(*ssa.Global); ok {
				gv := e.globalAddr(g)
				return e.load(env.st, gv.Loc)
			}
		}
	}
	// well-known external constants
	switch name {
	case "ZeroTimeNano":
		// instant of the zero time.Time in nanoseconds since the Unix epoch
		return intVal("(- 62135596800000000000)")
	case "MaxInt64":
		return intVal("9223372036854775807")
	case "MinInt64":
		return intVal("(- 9223372036854775808)")
	case "MaxUint64":
		return intVal("18446744073709551615")
	}
	if g, ok := e.w.ghostDecls[name]; ok {
		_ = g
		return e.ghost(env.st, name)
	}
	// a local that was renamed since the contract was written: the snapshot of the function's locals
	// (verif_contracts_locals.go) maps the old name to the variable now declared at the same position
	if env.f != nil && !env.noRename {
		if alt := e.w.renamedLocal(env.f.fn, name); alt != "" && alt != name {
			ne := *env
			ne.noRename = true
			e.renamesUsed[e.w.funcName(env.f.fn)+": "+name+" -> "+alt] = true
			return e.specIdent(alt, &ne)
		}
	}
	specFail("unknown identifier %q", name)
	panic("unreachable")
}

func (e *Enc) specLoad(p Val, env *SpecEnv) Val {
	if p.Loc != nil {
		return e.load(env.st, p.Loc)
	}
	pt, ok := p.Sh.T.Underlying().(*types.Pointer)
	if !ok {
		specFail("deref of non-pointer %s", p.Sh.T)
	}
	return e.load(env.st, &Loc{Base: p.T, Path: pathForType(pt.Elem()), Sh: shapeOf(pt.Elem())})
}

func (e *Enc) specSelector(n *ast.SelectorExpr, env *SpecEnv) Val {
	// qualified external names: math.MaxInt64, time.Hour ...
	if id, ok := n.X.(*ast.Ident); ok {
		if _, isVar := env.vars[id.Name]; !isVar {
			switch id.Name + "." + n.Sel.Name {
			case "math.MaxInt64":
				return intVal("9223372036854775807")
			case "math.MinInt64":
				return intVal("(- 9223372036854775808)")
			case "time.Nanosecond":
				return intVal("1")
			case "time.Microsecond":
				return intVal("1000")
			case "time.Millisecond":
				return intVal("1000000")
			case "time.Second":
				return intVal("1000000000")
			case "time.Minute":
				return intVal("60000000000")
			case "time.Hour":
				return intVal("3600000000000")
			}
		}
	}
	x := e.evalSpec(n.X, env)
	return e.fieldOf(x, n.Sel.Name, env)
}

func (e *Enc) fieldOf(x Val, name string, env *SpecEnv) Val {
	// pseudo-fields
	switch x.Sh.K {
	case KSlice:
		switch name {
		case "base__":
			return x.Sub[0]
		}
	case KIface:
		switch name {
		case "typ__":
			return x.Sub[0]
		case "val__":
			return x.Sub[1]
		}
	}
	if x.Sh.K == KStruct {
		for i, fn := range x.Sh.Names {
			if fn == name {
				return x.Sub[i]
			}
		}
		// embedded
		specFail("no field %s in %s", name, x.Sh.T)
	}
	var loc *Loc
	if x.Loc != nil {
		loc = x.Loc
	} else if pt, ok := x.Sh.T.Underlying().(*types.Pointer); ok {
		loc = &Loc{Base: x.T, Path: pathForType(pt.Elem()), Sh: shapeOf(pt.Elem())}
	} else {
		specFail("field %s of non-struct %s", name, x.Sh.T)
	}
	if loc.Sh.K != KStruct {
		specFail("field %s of non-struct pointee %s", name, loc.Sh.T)
	}
	for i, fn := range loc.Sh.Names {
		if fn == name {
			nl := &Loc{Base: loc.Base, Path: loc.Path + "." + fn, Idx: loc.Idx, Sh: loc.Sh.Sub[i]}
			if hasArray(nl.Sh) {
				return Val{Sh: &Shape{K: KInt, T: types.NewPointer(nl.Sh.T)}, T: "0", Loc: nl}
			}
			return e.load(env.st, nl)
		}
	}
	specFail("no field %s in %s", name, loc.Sh.T)
	panic("unreachable")
}

func (e *Enc) specIndex(n *ast.IndexExpr, env *SpecEnv) Val {
	x := e.evalSpec(n.X, env)
	i := e.evalSpec(n.Index, env)
	if e.inQuant == 0 && e.instDepth == 0 && i.Sh.K == KInt && !strings.Contains(i.T, "!q") && x.Sh.K == KSlice {
		e.instantiateFactsFor([]string{i.T}, elemPath(x.Sh.T.Underlying().(*types.Slice).Elem()))
	}
	switch {
	case x.Loc != nil && x.Loc.Sh.K == KArray:
		p := x.Loc.Path
		if !strings.HasSuffix(p, "[]") {
			p += "[]"
		}
		return e.loadOrLoc(env, &Loc{Base: x.Loc.Base, Path: p, Idx: i.T, Sh: x.Loc.Sh.Elem})
	case x.Sh.K == KSlice:
		el := x.Sh.T.Underlying().(*types.Slice).Elem()
		loc := &Loc{Base: x.Sub[0].T, Path: elemPath(el), Idx: fmt.Sprintf("(+ %s %s)", x.Sub[1].T, i.T), Sh: shapeOf(el)}
		if len(e.quantPats) > 0 && !hasArray(loc.Sh) {
			// trigger for the enclosing quantifier: the first leaf of the element read
			for k := range e.quantPats {
				if strings.Contains(i.T, e.quantPats[k].bv) && !strings.Contains(x.Sub[0].T, e.quantPats[k].bv) {
					ls := leavesOf(loc.Sh)
					if len(ls) > 0 {
						h := e.heap(env.st, loc.Path+ls[0].Path, ls[0].K)
						e.quantPats[k].pats = append(e.quantPats[k].pats, fmt.Sprintf("(select (select %s %s) %s)", h.Term, loc.Base, loc.Idx))
						e.quantPats[k].names = append(e.quantPats[k].names, loc.Path)
					}
				}
			}
		}
		return e.loadOrLoc(env, loc)
	case x.Sh.K == KStr:
		return intVal(fmt.Sprintf("(sat %s %s)", x.T, i.T))
	case x.Sh.K == KInt:
		if mt, ok := x.Sh.T.Underlying().(*types.Map); ok {
			_, v := e.mapGet(env.st, x.T, mt, i)
			return v
		}
	}
	specFail("index on %s", x.Sh.T)
	panic("unreachable")
}

func (e *Enc) loadOrLoc(env *SpecEnv, loc *Loc) Val {
	if loc.Sh.K == KStruct && hasArray(loc.Sh) {
		return Val{Sh: &Shape{K: KInt, T: types.NewPointer(loc.Sh.T)}, T: "0", Loc: loc}
	}
	return e.load(env.st, loc)
}

func isNilVal(v Val) bool {
	b, ok := v.Sh.T.(*types.Basic)
	return ok && b.Kind() == types.UntypedNil
}

func (e *Enc) specBinary(n *ast.BinaryExpr, env *SpecEnv) Val {
	switch n.Op {
	case token.LAND:
		return boolVal(and(e.evalBool(n.X, env), e.evalBool(n.Y, env)))
	case token.LOR:
		return boolVal(or(e.evalBool(n.X, env), e.evalBool(n.Y, env)))
	}
	sp := e.pol
	e.pol = 0
	x, y := e.evalSpec(n.X, env), e.evalSpec(n.Y, env)
	e.pol = sp
	switch n.Op {
	case token.EQL, token.NEQ:
		var t string
		switch {
		case isNilVal(y):
			t = e.isNil(x)
		case isNilVal(x):
			t = e.isNil(y)
		case x.Sh.K == KStr:
			t = e.strEq(x.T, y.T)
		case x.Sh.K == KFloat && y.Sh.K == KFloat:
			t = fmt.Sprintf("(= %s %s)", x.T, y.T) // spec equality on floats is identity of the value
		case x.Sh.K == KBool && y.Sh.K == KBool:
			t = fmt.Sprintf("(= %s %s)", x.T, y.T)
		default:
			if len(flatten(x)) != len(flatten(y)) {
				specFail("comparison of different shapes %s vs %s", x.Sh.T, y.Sh.T)
			}
			t = e.eqVal(x, y)
		}
		if n.Op == token.NEQ {
			t = not(t)
		}
		return boolVal(t)
	case token.LSS, token.LEQ, token.GTR, token.GEQ:
		op := n.Op.String()
		if x.Sh.K == KFloat {
			switch n.Op {
			case token.LSS:
				return boolVal(fmt.Sprintf("(flt %s %s)", x.T, y.T))
			case token.LEQ:
				return boolVal(fmt.Sprintf("(fle %s %s)", x.T, y.T))
			case token.GTR:
				return boolVal(fmt.Sprintf("(flt %s %s)", y.T, x.T))
			default:
				return boolVal(fmt.Sprintf("(fle %s %s)", y.T, x.T))
			}
		}
		if x.Sh.K == KStr {
			switch n.Op {
			case token.LSS:
				e.strOrderFacts(x.T, y.T)
				return boolVal(fmt.Sprintf("(strlt %s %s)", x.T, y.T))
			case token.GTR:
				e.strOrderFacts(x.T, y.T)
				return boolVal(fmt.Sprintf("(strlt %s %s)", y.T, x.T))
			}
		}
		return boolVal(fmt.Sprintf("(%s %s %s)", op, x.T, y.T))
	case token.ADD:
		if x.Sh.K == KStr {
			return strVal(e.strCat(x.T, y.T))
		}
		return Val{Sh: x.Sh, T: fmt.Sprintf("(+ %s %s)", x.T, y.T)} // mathematical
	case token.SUB:
		return Val{Sh: x.Sh, T: fmt.Sprintf("(- %s %s)", x.T, y.T)}
	case token.MUL:
		return Val{Sh: x.Sh, T: fmt.Sprintf("(* %s %s)", x.T, y.T)}
	case token.QUO:
		return Val{Sh: x.Sh, T: fmt.Sprintf("(tdiv %s %s)", x.T, y.T)}
	case token.REM:
		return Val{Sh: x.Sh, T: fmt.Sprintf("(tmod %s %s)", x.T, y.T)}
	case token.AND:
		// the same uninterpreted bit operation the executor uses (both sides of an equation see one symbol)
		return Val{Sh: x.Sh, T: fmt.Sprintf("(bitand%s %s %s)", bitsTag(x.Sh), x.T, y.T)}
	}
	specFail("unsupported binary operator %s", n.Op)
	panic("unreachable")
}

func (e *Enc) isNil(v Val) string {
	switch v.Sh.K {
	case KInt:
		if v.Loc != nil {
			return "false"
		}
		return fmt.Sprintf("(= %s 0)", v.T)
	case KIface:
		return fmt.Sprintf("(= %s 0)", v.Sub[0].T)
	case KSlice:
		return fmt.Sprintf("(= %s 0)", v.Sub[0].T)
	}
	specFail("nil comparison on %s", v.Sh.T)
	panic("unreachable")
}

func (e *Enc) specCall(n *ast.CallExpr, env *SpecEnv) Val {
	fname := ""
	switch f := n.Fun.(type) {
	case *ast.Ident:
		fname = f.Name
	case *ast.SelectorExpr:
		// method-style spec calls are not supported; x.f(...) only for pseudo ops
		fname = "." + f.Sel.Name
	case *ast.ParenExpr, *ast.StarExpr, *ast.ArrayType:
		fname = ""
	}
	arg := func(i int) Val { return e.evalSpec(n.Args[i], env) }
	switch fname {
	case "implies__":
		e.pol = -e.pol
		a := e.evalBool(n.Args[0], env)
		e.pol = -e.pol
		return boolVal(implies(a, e.evalBool(n.Args[1], env)))
	case "iff":
		sp := e.pol
		e.pol = 0
		defer func() { e.pol = sp }()
		return boolVal(fmt.Sprintf("(= %s %s)", e.evalBool(n.Args[0], env), e.evalBool(n.Args[1], env)))
	case "ite":
		sp := e.pol
		e.pol = 0
		c := e.evalBool(n.Args[0], env)
		e.pol = sp
		return e.iteVal(c, arg(1), arg(2))
	case "len":
		v := arg(0)
		switch v.Sh.K {
		case KSlice:
			return v.Sub[2]
		case KStr:
			return intVal(fmt.Sprintf("(slen %s)", v.T))
		case KInt:
			if mt, ok := v.Sh.T.Underlying().(*types.Map); ok {
				return intVal(e.mapLen(env.st, v.T, mt))
			}
		}
		specFail("len of %s", v.Sh.T)
	case "cap":
		return arg(0).Sub[3]
	case "old":
		if env.old == nil && env.oldVars == nil {
			specFail("old() not available here")
		}
		ne := *env
		if env.old != nil {
			ne.st = env.old
		}
		if env.oldVars != nil {
			ne.vars = map[string]Val{}
			for k, v := range env.vars {
				ne.vars[k] = v
			}
			for k, v := range env.oldVars {
				ne.vars[k] = v
				if env.f != nil {
					for _, on := range e.w.snapshotNamesOf(env.f.fn, k) {
						ne.vars[on] = v // the contract may still call the variable by its old name
					}
				}
			}
		}
		ne.old, ne.oldVars = nil, nil
		return e.evalSpec(n.Args[0], &ne)
	case "callarg":
		// callarg("pkg.F", k): the k-th argument of the single static call to F in this function's body
		lit, ok := n.Args[0].(*ast.BasicLit)
		if !ok || env.f == nil {
			specFail("callarg(\"f\", k) needs a function body")
		}
		cname, _ := strconv.Unquote(lit.Value)
		var k int
		if kl, ok := n.Args[1].(*ast.BasicLit); ok {
			fmt.Sscanf(kl.Value, "%d", &k)
		}
		var found *ssa.Call
		cnt := 0
		for _, b := range env.f.fn.Blocks {
			for _, ins := range b.Instrs {
				if c, ok := ins.(*ssa.Call); ok {
					if sc := c.Common().StaticCallee(); sc != nil && (sc.String() == cname || e.w.funcName(sc) == cname) {
						found = c
						cnt++
					}
				}
			}
		}
		if cnt != 1 || k >= len(found.Call.Args) {
			specFail("callarg(%q, %d): %d static calls in the body (need exactly one with that many arguments)", cname, k, cnt)
		}
		a := found.Call.Args[k]
		if c, ok := a.(*ssa.Const); ok {
			return e.constVal(c)
		}
		if v, ok := env.f.vals[a]; ok {
			return v
		}
		specFail("callarg(%q, %d): the argument has no value on this path", cname, k)
	case "callres":
		// callres("f", k): k-th result of the single static call to f in this function's body
		lit, ok := n.Args[0].(*ast.BasicLit)
		if !ok || env.f == nil {
			specFail("callres(\"f\", k) needs a function body")
		}
		cname, _ := strconv.Unquote(lit.Value)
		var k int
		if kl, ok := n.Args[1].(*ast.BasicLit); ok {
			fmt.Sscanf(kl.Value, "%d", &k)
		}
		var found *ssa.Call
		cnt := 0
		want := 0 // 0: the call must be the only one; n: the n-th call in block order
		if len(n.Args) > 2 {
			if ol, ok := n.Args[2].(*ast.BasicLit); ok {
				fmt.Sscanf(ol.Value, "%d", &want)
			}
		}
		for _, b := range env.f.fn.Blocks {
			for _, ins := range b.Instrs {
				if c, ok := ins.(*ssa.Call); ok {
					if sc := c.Common().StaticCallee(); sc != nil && e.w.funcName(sc) == cname {
						cnt++
						if want == 0 || cnt == want {
							found = c
						}
					}
				}
			}
		}
		if (want == 0 && cnt != 1) || (want > 0 && cnt < want) {
			specFail("callres(%q): %d static calls in the body", cname, cnt)
		}
		v, ok := env.f.vals[found]
		if !ok {
			// the call is not on this path: an arbitrary value of its result type (the clause has to
			// hold whatever it is, so this can only make a clause harder to prove, never easier)
			rt := found.Type()
			if tp, isT := rt.(*types.Tuple); isT {
				if k >= tp.Len() {
					specFail("callres(%q, %d): the call has %d results", cname, k, tp.Len())
				}
				rt = tp.At(k).Type()
			}
			nv := e.freshVal(shapeOf(rt), "nocall_"+sanitize(cname))
			e.assumeLoaded(env.st, nv)
			return nv
		}
		if v.Sh.K == KTuple || (len(v.Sub) > k && found.Type() != nil && isTuple(found.Type())) {
			return v.Sub[k]
		}
		return v
	case "local":
		// local(x): the function's local variable x at this point, even when a parameter has the same name
		id, ok := n.Args[0].(*ast.Ident)
		if !ok || env.f == nil || env.blk == nil {
			specFail("local(x): x must be a local variable name and the clause must be evaluated inside a function body")
		}
		if e.w.uniqueInSnapshot(env.f.fn, id.Name) {
			if alt := e.w.renamedLocal(env.f.fn, id.Name); alt != "" && alt != id.Name {
				if v, ok := e.resolveLocal(env.f, env.blk, alt, env.atHead, env.st); ok {
					e.renamesUsed[e.w.funcName(env.f.fn)+": "+id.Name+" -> "+alt] = true
					return v
				}
			}
		}
		if v, ok := e.resolveLocal(env.f, env.blk, id.Name, env.atHead, env.st); ok {
			return v
		}
		if alt := e.w.renamedLocal(env.f.fn, id.Name); alt != "" && alt != id.Name {
			if v, ok := e.resolveLocal(env.f, env.blk, alt, env.atHead, env.st); ok {
				e.renamesUsed[e.w.funcName(env.f.fn)+": "+id.Name+" -> "+alt] = true
				return v
			}
		}
		specFail("local(%s): no such local", id.Name)
	case "outer":
		// outer(N, expr): expr with loop-carried variables (and memory) as they were at the head of loop N in its current iteration
		if env.f == nil {
			specFail("outer() outside a function body")
		}
		lit, ok := n.Args[0].(*ast.BasicLit)
		if !ok {
			specFail("outer(N, expr): N must be a literal")
		}
		var ord int
		fmt.Sscanf(lit.Value, "%d", &ord)
		for hb, li := range env.f.loops {
			if li.ordinal == ord {
				hv, ok1 := env.f.headVal[hb]
				hs, ok2 := env.f.headSt[hb]
				if !ok1 || !ok2 {
					specFail("outer(%d, ...): loop head not executed yet", ord)
				}
				ne := *env
				ne.st = hs
				ne.vars = map[string]Val{}
				for k, v := range env.vars {
					ne.vars[k] = v
				}
				for k, v := range hv {
					ne.vars[k] = v
					for _, on := range e.w.snapshotNamesOf(env.f.fn, k) {
						ne.vars[on] = v
					}
				}
				ne.old, ne.oldVars = nil, nil
				return e.evalSpec(n.Args[1], &ne)
			}
		}
		specFail("outer(%d, ...): no such loop", ord)
	case "entry":
		// value in the state at function entry (old() inside step clauses means the loop head)
		ne := *env
		ne.st = e.entry
		ne.old, ne.oldVars = nil, nil
		return e.evalSpec(n.Args[0], &ne)
	case "fresh":
		// fresh(x): allocated during the call (not before it, and already allocated now)
		v := arg(0)
		nx := env.st.next
		switch v.Sh.K {
		case KInt:
			return boolVal(fmt.Sprintf("(and (>= %s %s) (< %s %s))", v.T, e.nextEntry, v.T, nx))
		case KSlice:
			return boolVal(fmt.Sprintf("(or (= %s 0) (and (>= %s %s) (< %s %s)))", v.Sub[0].T, v.Sub[0].T, e.nextEntry, v.Sub[0].T, nx))
		case KIface:
			return boolVal(fmt.Sprintf("(and (>= %s %s) (< %s %s))", v.Sub[1].T, e.nextEntry, v.Sub[1].T, nx))
		}
		specFail("fresh of %s", v.Sh.T)
	case "ovf":
		return e.ghost(env.st, "ovf")
	case "istype":
		v := arg(0)
		t := e.w.resolveType(n.Args[1])
		return boolVal(e.typeTest(v, t))
	case "typeis":
		// typeis(x, T1, T2, ...): dynamic type is one of
		v := arg(0)
		var cs []string
		for _, a := range n.Args[1:] {
			cs = append(cs, e.typeTest(v, e.w.resolveType(a)))
		}
		return boolVal(or(cs...))
	case "forall", "exists":
		// forall(i, lo, hi, body): lo <= i < hi
		id := n.Args[0].(*ast.Ident).Name
		sp := e.pol
		e.pol = 0
		lo, hi := arg(1), arg(2)
		e.pol = sp
		if e.inQuant == 0 && ((fname == "forall" && e.pol > 0) || (fname == "exists" && e.pol < 0)) {
			// goal position: Skolemize (assumption position of an exists: a witness)
			k := e.fresh(id+"!sk", "Int")
			if e.pol > 0 {
				e.goalSkolems = append(e.goalSkolems, k)
			}
			body := e.evalBool(n.Args[3], env.with(id, intVal(k)))
			rng := fmt.Sprintf("(and (<= %s %s) (< %s %s))", lo.T, k, k, hi.T)
			if fname == "forall" {
				return boolVal(implies(rng, body))
			}
			return boolVal(and(rng, body))
		}
		if e.inQuant == 0 && fname == "forall" && e.pol != 0 {
			// constant small range: expand
			var l0, h0 int
			if _, err := fmt.Sscanf(lo.T, "%d", &l0); err == nil && fmt.Sprint(l0) == lo.T {
				if _, err := fmt.Sscanf(hi.T, "%d", &h0); err == nil && fmt.Sprint(h0) == hi.T && h0-l0 <= 8 {
					var cs []string
					for k := l0; k < h0; k++ {
						cs = append(cs, e.evalBool(n.Args[3], env.with(id, intVal(fmt.Sprint(k)))))
					}
					return boolVal(and(cs...))
				}
			}
		}
		if e.inQuant == 0 && fname == "forall" && e.pol < 0 {
			// universal hypothesis: remember it for explicit instantiation at the Skolem constants of later goals
			if e.registerQuantFact(n, id, env) && !keepQuantifiers {
				return boolVal("true") // used only through its explicit instances
			}
			if !keepQuantifiers && e.instDepth > 0 && len(e.curGoalSkolems) > 0 && len(e.curGoalSkolems) <= 6 && e.nestInst == 0 {
				// nested universal hypothesis met while instantiating the outer one for a goal:
				// its instances at the Skolem constants of that goal
				e.nestInst++
				var cs []string
				for _, t := range e.curGoalSkolems {
					rng := fmt.Sprintf("(and (<= %s %s) (< %s %s))", lo.T, t, t, hi.T)
					saveR := e.curReach
					e.curReach = and(saveR, rng)
					cs = append(cs, implies(rng, e.evalBool(n.Args[3], env.with(id, intVal(t)))))
					e.curReach = saveR
				}
				e.nestInst--
				return boolVal(and(cs...))
			}
			if !keepQuantifiers && (e.instDepth > 0 || e.invDepth > 1) {
				e.droppedNested++
				return boolVal("true") // nested hypothesis met while instantiating: not used (incompleteness only)
			}
		}
		e.ctr["q"]++
		bv := fmt.Sprintf("%s!q%d", id, e.ctr["q"])
		e.inQuant++
		e.quantPats = append(e.quantPats, quantPat{bv: bv})
		body := e.evalBool(n.Args[3], env.with(id, intVal(bv)))
		qp := e.quantPats[len(e.quantPats)-1]
		e.quantPats = e.quantPats[:len(e.quantPats)-1]
		e.inQuant--
		if fname == "forall" && len(qp.pats) > 0 {
			var ps []string
			seen := map[string]bool{}
			for _, pt := range qp.pats {
				if !seen[pt] && len(ps) < 4 {
					seen[pt] = true
					ps = append(ps, ":pattern ("+pt+")")
				}
			}
			rng0 := fmt.Sprintf("(and (<= %s %s) (< %s %s))", lo.T, bv, bv, hi.T)
			return boolVal(fmt.Sprintf("(forall ((%s Int)) (! (=> %s %s) %s))", bv, rng0, body, strings.Join(ps, " ")))
		}
		rng := fmt.Sprintf("(and (<= %s %s) (< %s %s))", lo.T, bv, bv, hi.T)
		if fname == "forall" {
			return boolVal(fmt.Sprintf("(forall ((%s Int)) (=> %s %s))", bv, rng, body))
		}
		return boolVal(fmt.Sprintf("(exists ((%s Int)) (and %s %s))", bv, rng, body))
	case "forallint":
		id := n.Args[0].(*ast.Ident).Name
		e.ctr["q"]++
		bv := fmt.Sprintf("%s!q%d", id, e.ctr["q"])
		e.inQuant++
		body := e.evalBool(n.Args[1], env.with(id, intVal(bv)))
		e.inQuant--
		return boolVal(fmt.Sprintf("(forall ((%s Int)) %s)", bv, body))
	case "i2f":
		return Val{Sh: floatShape, T: fmt.Sprintf("(i2f %s)", arg(0).T)}
	case "int64", "int", "uint64", "rune", "Token", "DataType", "byte", "int32":
		v := arg(0)
		t := e.w.resolveType(n.Fun)
		sh := shapeOf(t)
		if v.Sh.K == KFloat {
			return Val{Sh: sh, T: fmt.Sprintf("(f2i%s%d %s)", bitsTag(sh), bitsOf(sh), v.T)}
		}
		return Val{Sh: sh, T: e.wrap(sh, v.T)}
	case "string":
		v := arg(0)
		if v.Sh.K == KStr {
			return strVal(v.T)
		}
		specFail("string() of %s", v.Sh.T)
	case "float64":
		v := arg(0)
		if v.Sh.K == KFloat {
			return v
		}
		return Val{Sh: floatShape, T: fmt.Sprintf("(i2f %s)", v.T)}
	case "smt":
		// smt("fname", args...) : raw application of a prelude function returning Int
		lit := n.Args[0].(*ast.BasicLit)
		name, _ := strconv.Unquote(lit.Value)
		var as []string
		for i := 1; i < len(n.Args); i++ {
			as = append(as, flatten(arg(i))...)
		}
		ret := intShape
		if s, ok := preludeSorts[name]; ok {
			ret = s
		}
		if len(as) == 0 {
			return Val{Sh: ret, T: name}
		}
		return Val{Sh: ret, T: "(" + name + " " + strings.Join(as, " ") + ")"}
	case "unboxF":
		v := arg(0)
		return Val{Sh: floatShape, T: fmt.Sprintf("(unboxF %s)", v.Sub[1].T)}
	case "unboxS":
		v := arg(0)
		return strVal(fmt.Sprintf("(unboxS %s)", v.Sub[1].T))
	case "unboxB":
		v := arg(0)
		return boolVal(fmt.Sprintf("(= %s 1)", v.Sub[1].T))
	case "unboxI":
		v := arg(0)
		return intVal(v.Sub[1].T)
	case "ghost":
		name := n.Args[0].(*ast.Ident).Name
		return e.ghost(env.st, name)
	case "call":
		// call("(*T).method", args...): symbolic execution of a loop-free function of the package
		lit := n.Args[0].(*ast.BasicLit)
		name, _ := strconv.Unquote(lit.Value)
		fn := e.w.lookupFunc(name)
		if fn == nil {
			specFail("call: no function %s", name)
		}
		var args []Val
		for i := 1; i < len(n.Args); i++ {
			args = append(args, e.coerce(arg(i), shapeOf(fn.Params[i-1].Type())))
		}
		e.noObl++
		defer func() { e.noObl-- }()
		return e.inlinePure(fn, args, env.st)
	case "libcall":
		// libcall("pkg.Func", args...): the uninterpreted function that models a pure library function
		lit := n.Args[0].(*ast.BasicLit)
		name, _ := strconv.Unquote(lit.Value)
		fn := e.w.libFunc(name)
		if fn == nil {
			specFail("libcall: unknown library function %s", name)
		}
		var args []Val
		for i := 1; i < len(n.Args); i++ {
			args = append(args, arg(i))
		}
		var rs *Shape
		if fn.Signature.Results().Len() == 1 {
			rs = shapeOf(fn.Signature.Results().At(0).Type())
		} else {
			rs = shapeOf(fn.Signature.Results())
		}
		return e.pureLib(name, args, rs)
	case "nth":
		// nth(t, k): the k-th component of a tuple-valued term (a multi-result libcall)
		v := arg(0)
		k, err := strconv.Atoi(exprString(n.Args[1]))
		if err != nil || v.Sh.K != KTuple || k < 0 || k >= len(v.Sub) {
			specFail("nth(%s, %s): not a tuple component", exprString(n.Args[0]), exprString(n.Args[1]))
		}
		return v.Sub[k]
	case "mkobj":
		// mkobj(T, field, value, ...): a ghost object of struct type T (not reachable from program state)
		t := e.w.resolveType(n.Args[0])
		e.ghostObjs++
		ref := fmt.Sprintf("(- %d)", e.ghostObjs)
		e.initObject(env.st, ref, t)
		sh := shapeOf(t)
		for i := 1; i+1 < len(n.Args); i += 2 {
			fname := n.Args[i].(*ast.Ident).Name
			idx := -1
			for k, fn := range sh.Names {
				if fn == fname {
					idx = k
				}
			}
			if idx < 0 {
				specFail("mkobj: no field %s", fname)
			}
			v := e.coerce(arg(i+1), sh.Sub[idx])
			e.storeVal(env.st, &Loc{Base: ref, Path: pathForType(t) + "." + fname, Sh: sh.Sub[idx]}, v)
		}
		return Val{Sh: shapeOf(types.NewPointer(t)), T: ref}
	case "box":
		// box(x): x as an interface{} value
		v := arg(0)
		if v.Sh.K == KIface {
			return v
		}
		return Val{Sh: shapeOf(types.NewInterfaceType(nil, nil)), Sub: []Val{intVal(fmt.Sprintf("%d", e.w.typeTag(v.Sh.T))), intVal(e.box(v))}}
	case "haskey":
		// haskey(m, k): the map holds an entry for k
		m, k := arg(0), arg(1)
		mt, ok := m.Sh.T.Underlying().(*types.Map)
		if !ok {
			specFail("haskey of %s", m.Sh.T)
		}
		ks := keySort(mt)
		has := e.mapHeap(env.st, mapPath(mt)+"#has", "(Array Int (Array "+ks+" Bool))")
		e.frameLemmas(has, m.T, map[*Heap]bool{})
		return boolVal(fmt.Sprintf("(and (not (= %s 0)) (select (select %s %s) %s))", m.T, has.Term, m.T, k.T))
	case "mapvalsnonnil":
		// every value stored in the (interface-valued) map is a non-nil interface
		m := arg(0)
		mt, ok := m.Sh.T.Underlying().(*types.Map)
		if !ok {
			specFail("mapvalsnonnil of %s", m.Sh.T)
		}
		ks := keySort(mt)
		pth := mapPath(mt)
		has := e.mapHeap(env.st, pth+"#has", "(Array Int (Array "+ks+" Bool))")
		typ := e.mapHeap(env.st, pth+"#val#typ", "(Array Int (Array "+ks+" Int))")
		e.frameLemmas(has, m.T, map[*Heap]bool{})
		e.frameLemmas(typ, m.T, map[*Heap]bool{})
		e.ctr["q"]++
		bv := fmt.Sprintf("k!q%d", e.ctr["q"])
		return boolVal(fmt.Sprintf("(or (= %s 0) (forall ((%s %s)) (=> (select (select %s %s) %s) (not (= (select (select %s %s) %s) 0)))))", m.T, bv, ks, has.Term, m.T, bv, typ.Term, m.T, bv))
	case "mapvalstyped":
		// mapvalstyped(m, T1, ..., Tn): the dynamic type of every value stored in the
		// (interface-valued) map is one of T1..Tn
		m := arg(0)
		mt, ok := m.Sh.T.Underlying().(*types.Map)
		if !ok {
			specFail("mapvalstyped of %s", m.Sh.T)
		}
		ks := keySort(mt)
		pth := mapPath(mt)
		has := e.mapHeap(env.st, pth+"#has", "(Array Int (Array "+ks+" Bool))")
		typ := e.mapHeap(env.st, pth+"#val#typ", "(Array Int (Array "+ks+" Int))")
		e.frameLemmas(has, m.T, map[*Heap]bool{})
		e.frameLemmas(typ, m.T, map[*Heap]bool{})
		e.ctr["q"]++
		bv := fmt.Sprintf("k!q%d", e.ctr["q"])
		var cs []string
		for _, a := range n.Args[1:] {
			cs = append(cs, fmt.Sprintf("(= (select (select %s %s) %s) %d)", typ.Term, m.T, bv, e.w.typeTag(e.w.resolveType(a))))
		}
		return boolVal(fmt.Sprintf("(or (= %s 0) (forall ((%s %s)) (=> (select (select %s %s) %s) %s)))", m.T, bv, ks, has.Term, m.T, bv, or(cs...)))
	case "notnil":
		// notnil(x): non-nil pointer, or interface that is neither nil nor a typed nil pointer
		v := arg(0)
		switch v.Sh.K {
		case KInt:
			if v.Loc != nil {
				return boolVal("true")
			}
			return boolVal(fmt.Sprintf("(not (= %s 0))", v.T))
		case KIface:
			return boolVal(fmt.Sprintf("(and (not (= %s 0)) (=> (isptrtype %s) (not (= %s 0))))", v.Sub[0].T, v.Sub[0].T, v.Sub[1].T))
		case KSlice:
			return boolVal(fmt.Sprintf("(not (= %s 0))", v.Sub[0].T))
		}
		specFail("notnil of %s", v.Sh.T)
	case "dynres":
		// dynres(fn, k): k-th result of the call made through the function-typed parameter fn
		name := n.Args[0].(*ast.Ident).Name
		v, ok := e.dynResults[name]
		if !ok {
			specFail("no call through %s seen", name)
		}
		var k int
		fmt.Sscanf(n.Args[1].(*ast.BasicLit).Value, "%d", &k)
		if v.Sh.K == KTuple {
			return v.Sub[k]
		}
		return v
	case "rscur", "rslen":
		e.rsDecls()
		o := e.objRef(arg(0))
		if fname == "rslen" {
			return intVal(fmt.Sprintf("(rslen %s)", o))
		}
		return intVal(e.sel(e.rsHeap(env.st), o, ""))
	case "rsin":
		e.rsDecls()
		return intVal(fmt.Sprintf("(rsin %s %s)", e.objRef(arg(0)), arg(1).T))
	case "content":
		return strVal(e.sel(e.contentHeap(env.st), e.objRef(arg(0)), ""))
	case "scat":
		return strVal(e.strCat(arg(0).T, arg(1).T))
	case "srune":
		t := e.define("srune", "Str", fmt.Sprintf("(srune %s)", arg(0).T))
		return strVal(t)
	}
	// conversion to a named type: T(x)
	if fname == "" {
		t := e.w.resolveType(n.Fun)
		v := arg(0)
		nv := v
		nv.Sh = shapeOf(t)
		return nv
	}
	// spec function / pure repo function: inline
	if fn := e.w.pkg.Func(fname); fn != nil {
		var args []Val
		for i := range n.Args {
			a := arg(i)
			want := shapeOf(fn.Params[i].Type())
			a = e.coerce(a, want)
			args = append(args, a)
		}
		return e.inlinePure(fn, args, env.st)
	}
	// type conversion through a package-level named type
	if obj := e.w.pkg.Pkg.Scope().Lookup(fname); obj != nil {
		if tn, ok := obj.(*types.TypeName); ok {
			v := arg(0)
			nv := v
			nv.Sh = shapeOf(tn.Type())
			return nv
		}
	}
	specFail("unknown spec function %q", fname)
	panic("unreachable")
}

// objRef: the reference behind a pointer or an interface holding a pointer.
func (e *Enc) objRef(v Val) string {
	switch v.Sh.K {
	case KIface:
		return v.Sub[1].T
	case KInt:
		return v.T
	}
	specFail("not an object reference: %s", v.Sh.T)
	panic("unreachable")
}

// coerce adapts an untyped/other-named value to the wanted shape when the
// leaf structure agrees.
func (e *Enc) coerce(v Val, want *Shape) Val {
	if v.Sh == want {
		return v
	}
	if v.IsLeaf() && want.IsLeafKind() && v.Sh.K == want.K {
		nv := v
		nv.Sh = want
		return nv
	}
	if isNilVal(v) {
		return zeroVal(want)
	}
	if v.Sh.K == KInt && want.K == KIface && !isNilVal(v) {
		// a pointer passed where an interface is expected
		return Val{Sh: want, Sub: []Val{intVal(fmt.Sprintf("%d", e.w.typeTag(v.Sh.T))), intVal(v.T)}}
	}
	if v.Sh.K == want.K {
		ts := flatten(v)
		if len(ts) == len(leavesOfSafe(want)) {
			return build(want, &ts)
		}
	}
	specFail("cannot pass %s as %s", v.Sh.T, want.T)
	panic("unreachable")
}

func leavesOfSafe(sh *Shape) []leafInfo {
	defer func() { recover() }()
	return leavesOf(sh)
}

// inlinePure symbolically executes a loop-free function and returns its
// (merged) result. Obligations inside spec functions are suppressed.
// specDefine tries to turn a heap-free spec function into one SMT define-fun
// (parameters: the argument leaves) instead of inlining its body at every use.
func (e *Enc) specDefine(fn *ssa.Function) string {
	if name, ok := e.specFuncs[fn]; ok {
		return name
	}
	e.specFuncs[fn] = "" // not eligible unless proven otherwise (also guards recursion)
	if !strings.HasPrefix(fn.Name(), "spec_") || fn.Signature.Results().Len() != 1 {
		return ""
	}
	resSh := shapeOf(fn.Signature.Results().At(0).Type())
	if !resSh.IsLeafKind() {
		return ""
	}
	var formals []Val
	var decl []string
	k := 0
	for _, p := range fn.Params {
		sh := shapeOf(p.Type())
		if hasArray(sh) || sh.K == KSlice || sh.K == KStruct {
			return ""
		}
		ls := leavesOf(sh)
		ts := make([]string, len(ls))
		for i, l := range ls {
			k++
			ts[i] = fmt.Sprintf("fp%d!q", k)
			decl = append(decl, fmt.Sprintf("(%s %s)", ts[i], l.K.Sort()))
		}
		formals = append(formals, build(sh, &ts))
	}
	n0 := len(e.lines)
	ok := true
	var body Val
	func() {
		defer func() {
			if r := recover(); r != nil {
				ok = false
			}
		}()
		e.inQuant++
		e.noObl++
		defer func() { e.inQuant--; e.noObl-- }()
		saveReach, saveState := e.curReach, e.curState
		defer func() { e.curReach, e.curState = saveReach, saveState }()
		f := e.newFrame(fn, false)
		st := &State{heaps: map[string]*Heap{}, ghosts: map[string]Val{}, dirty: map[string]*dirtyRec{}, next: "0"}
		e.run(f, formals, st, "true")
		if len(f.rets) == 0 || len(st.heaps) > 0 {
			ok = false
			return
		}
		for _, r := range f.rets {
			if len(r.st.heaps) > 0 {
				ok = false
				return
			}
		}
		body = f.rets[len(f.rets)-1].vals[0]
		for i := len(f.rets) - 2; i >= 0; i-- {
			body = e.iteVal(f.rets[i].reach, f.rets[i].vals[0], body)
		}
	}()
	// anything emitted besides string-literal declarations makes the function ineligible
	for _, l := range e.lines[n0:] {
		if !strings.HasPrefix(l, "(declare-const strlit!") && !strings.HasPrefix(l, "(assert (= (slen strlit!") && !strings.HasPrefix(l, "(assert (= (sat strlit!") && !strings.HasPrefix(l, "(assert (not (= strlit!") {
			ok = false
		}
	}
	if !ok || !body.IsLeaf() {
		return ""
	}
	name := "sf_" + sanitize(fn.Name())
	e.emit(fmt.Sprintf("(define-fun %s (%s) %s %s)", name, strings.Join(decl, " "), resSh.K.Sort(), body.T))
	e.specFuncs[fn] = name
	return name
}

func (e *Enc) inlinePure(fn *ssa.Function, args []Val, st *State) Val {
	if name := e.specDefine(fn); name != "" {
		var ts []string
		for _, a := range args {
			ts = append(ts, flatten(a)...)
		}
		resSh := shapeOf(fn.Signature.Results().At(0).Type())
		if len(ts) == 0 {
			return Val{Sh: resSh, T: name}
		}
		return Val{Sh: resSh, T: "(" + name + " " + strings.Join(ts, " ") + ")"}
	}
	if e.depth > 12 {
		specFail("inline depth exceeded at %s", fn.Name())
	}
	e.depth++
	defer func() { e.depth-- }()
	isSpec := strings.HasPrefix(fn.Name(), "spec_")
	if isSpec {
		e.noObl++
		defer func() { e.noObl-- }()
	}
	saveReach, saveState := e.curReach, e.curState
	defer func() { e.curReach, e.curState = saveReach, saveState }()
	f := e.newFrame(fn, false)
	stc := st.clone()
	e.run(f, args, stc, "true")
	if len(f.rets) == 0 {
		specFail("function %s never returns", fn.Name())
	}
	// merge results
	res := f.rets[len(f.rets)-1]
	var out Val
	mk := func(rs retSite) Val {
		if len(rs.vals) == 1 {
			return rs.vals[0]
		}
		sh := shapeOf(fn.Signature.Results())
		return Val{Sh: sh, Sub: rs.vals}
	}
	out = mk(res)
	for i := len(f.rets) - 2; i >= 0; i-- {
		out = e.iteVal(f.rets[i].reach, mk(f.rets[i]), out)
	}
	return e.nameVal(out, "r_"+sanitize(fn.Name()))
}

// quantFact: a universally quantified hypothesis kept as a closure so that it
// can be instantiated explicitly (no reliance on solver triggers).
type quantFact struct {
	id    int
	reach string
	inst  func(t string) string
	elems map[string]bool // element heaps indexed by the bound variable (nil: unknown, instantiate everywhere)
}

var keepQuantifiers = os.Getenv("GOVC_KEEPQUANT") != ""

func (e *Enc) registerQuantFact(n *ast.CallExpr, id string, env *SpecEnv) bool {
	if e.instDepth > 0 || e.invDepth > 1 {
		return false // hypotheses met while instantiating another one stay purely quantified
	}
	cenv := *env
	cenv.st = env.st.clone()
	if env.old != nil {
		cenv.old = env.old.clone()
	}
	// capture the current values of the variables the hypothesis mentions (loop-carried
	// variables are rebound while back edges are checked)
	cenv.vars = map[string]Val{}
	for k, v := range env.vars {
		cenv.vars[k] = v
	}
	for _, a := range n.Args[1:] {
		ast.Inspect(a, func(x ast.Node) bool {
			if idn, ok := x.(*ast.Ident); ok && idn.Name != id {
				if _, have := cenv.vars[idn.Name]; !have {
					func() {
						mode := e.saveMode()
						defer func() {
							if r := recover(); r != nil {
								e.restoreMode(mode)
							}
						}()
						cenv.vars[idn.Name] = e.specIdent(idn.Name, env)
					}()
				}
			}
			return true
		})
	}
	ne := e.nextEntry
	e.ctr["qf"]++
	qf := &quantFact{id: e.ctr["qf"], reach: e.curReach}
	qf.inst = func(t string) string {
		saveNE, savePol := e.nextEntry, e.pol
		e.nextEntry, e.pol = ne, -1
		defer func() { e.nextEntry, e.pol = saveNE, savePol }()
		saveR := e.curReach
		e.curReach = qf.reach // everything assumed while evaluating the hypothesis holds only where the hypothesis does
		lo := e.evalSpec(n.Args[1], &cenv)
		hi := e.evalSpec(n.Args[2], &cenv)
		rng := fmt.Sprintf("(and (<= %s %s) (< %s %s))", lo.T, t, t, hi.T)
		e.curReach = and(qf.reach, rng)
		body := e.evalBool(n.Args[3], cenv.with(id, intVal(t)))
		e.curReach = saveR
		return implies(rng, body)
	}
	// dry run: which element heaps does the body read at the bound index?
	func() {
		mode := e.saveMode()
		defer func() {
			if r := recover(); r != nil {
				e.restoreMode(mode)
			}
		}()
		e.inQuant++
		e.quantPats = append(e.quantPats, quantPat{bv: "dry!q"})
		e.evalBool(n.Args[3], cenv.with(id, intVal("dry!q")))
		qp := e.quantPats[len(e.quantPats)-1]
		e.quantPats = e.quantPats[:len(e.quantPats)-1]
		e.inQuant--
		qf.elems = map[string]bool{}
		for _, nm := range qp.names {
			qf.elems[nm] = true
		}
	}()
	e.quantFacts = append(e.quantFacts, qf)
	// instantiate at the index terms seen so far
	e.instDepth++
	for _, it := range e.indexTerms {
		if qf.relevant(it.elem) {
			e.instOne(qf, it.term)
		}
	}
	e.instDepth--
	return true
}

func (qf *quantFact) relevant(elem string) bool {
	return elem == "" || qf.elems == nil || len(qf.elems) == 0 || qf.elems[elem]
}

type indexTerm struct{ term, elem string }

// instantiateFacts adds the ground instances of all remembered universal
// hypotheses at the given terms.
func (e *Enc) instantiateFacts(terms []string) { e.instantiateFactsFor(terms, "") }

// instantiateFactsFor: elem names the element heap the terms index (empty: any).
func (e *Enc) instantiateFactsFor(terms []string, elem string) {
	if len(terms) == 0 {
		return
	}
	facts := e.quantFacts
	e.instDepth++
	defer func() { e.instDepth-- }()
	for _, qf := range facts {
		if !qf.relevant(elem) {
			continue
		}
		for _, t := range terms {
			e.instOne(qf, t)
		}
	}
	for _, t := range terms {
		known := false
		for _, x := range e.indexTerms {
			if x.term == t && x.elem == elem {
				known = true
			}
		}
		if !known {
			e.indexTerms = append(e.indexTerms, indexTerm{t, elem})
		}
	}
}

func (e *Enc) instOne(qf *quantFact, t string) {
	key := fmt.Sprintf("qf:%d@%s", qf.id, t)
	if e.lemmaDone[key] {
		return
	}
	e.lemmaDone[key] = true
	e.ctr["qfinst"]++
	mode := e.saveMode()
	defer func() {
		if r := recover(); r != nil {
			e.restoreMode(mode)
			if _, ok := r.(specErr); ok {
				return // the hypothesis mentions names that do not resolve here: skip this instance
			}
			panic(r)
		}
	}()
	saveR := e.curReach
	d0 := e.droppedNested
	inst := qf.inst(t)
	if e.droppedNested > d0 {
		delete(e.lemmaDone, key) // a nested hypothesis was left out: instantiate again when a goal provides its Skolem constants
	}
	e.curReach = qf.reach
	e.assume(inst)
	e.curReach = saveR
}

func isTuple(t types.Type) bool { _, ok := t.(*types.Tuple); return ok }
