package main

import (
	"go/token"
	"os"
	"fmt"
	"go/ast"
	"go/types"
	"sort"
	"strings"

	"golang.org/x/tools/go/ssa"
)

// baseEnv builds the spec environment of the top-level function: parameters
// by name, entry state as old().
func (e *Enc) baseEnv(f *frame, st *State) *SpecEnv {
	env := &SpecEnv{vars: map[string]Val{}, params: map[string]Val{}, st: st, old: e.entry, f: f, fc: e.fc}
	for i, p := range f.fn.Params {
		env.params[p.Name()] = f.params[i]
	}
	// captured variables by name: the value the cell holds now
	for _, fv := range f.fn.FreeVars {
		cell, ok := f.vals[fv]
		pt, isPtr := fv.Type().(*types.Pointer)
		if !ok || !isPtr || cell.Sh.K != KInt {
			continue
		}
		func() {
			mode := e.saveMode()
			defer func() {
				if r := recover(); r != nil {
					e.restoreMode(mode)
				}
			}()
			loc := &Loc{Base: cell.T, Path: pathForType(pt.Elem()), Sh: shapeOf(pt.Elem())}
			env.params[fv.Name()] = e.load(st, loc)
		}()
	}
	return env
}

// resultNames returns the names by which results are referred to in contracts.
func resultNames(fn *ssa.Function) []string {
	res := fn.Signature.Results()
	names := make([]string, res.Len())
	for i := 0; i < res.Len(); i++ {
		n := res.At(i).Name()
		if n == "" || n == "_" {
			if res.Len() == 1 {
				n = "result"
			} else {
				n = fmt.Sprintf("result%d", i)
			}
		}
		names[i] = n
	}
	return names
}

func (e *Enc) checkPost(f *frame, rs retSite) {
	if e.fc == nil {
		return
	}
	env := e.baseEnv(f, rs.st)
	names := resultNames(f.fn)
	for i, n := range names {
		env.vars[n] = rs.vals[i]
		if len(names) == 1 {
			env.vars["result"] = rs.vals[i]
		}
	}
	// locals of the function are visible in post-conditions with their values at the return
	env.blk, env.paramsFirst = rs.blk, true
	e.ctr["ret"]++
	retTag := e.w.returnSite(f.fn, rs.pos)
	e.curReach = rs.reach
	for k, c := range e.fc.Ensures {
		goal := e.safeEvalGoal(c, env)
		lb := fmt.Sprintf("ensures%d", k+1)
		if c.Label != "" {
			lb = c.Label
		}
		e.oblige("post", lb+"/"+retTag, rs.pos, goal, c.Props, c.Text)
	}
	if e.fc.EstablishesGlobalInvs {
		genv := &SpecEnv{vars: map[string]Val{}, st: rs.st}
		for k, c := range e.w.contracts.GlobalInvs {
			goal := e.safeEvalGoal(c, genv)
			e.oblige("post", fmt.Sprintf("globalinv%d/%s", k+1, retTag), rs.pos, goal, e.fc.Props, c.Text)
		}
	}
	for k, c := range e.fc.Claims {
		goal := e.safeEvalGoal(c, env)
		n0 := len(e.lines)
		lb := fmt.Sprintf("claims%d", k+1)
		if c.Label != "" {
			lb = c.Label
		}
		e.oblige("post", lb+"/"+retTag, rs.pos, goal, c.Props, c.Text)
		// a claim may be a known finding: it is never assumed afterwards
		e.lines = e.lines[:n0]
	}
	// frame obligations are generated at stores; nothing more here.
}

// safeEvalGoal evaluates a clause that is about to be proved: universal
// quantifiers are Skolemized and the remembered universal hypotheses are
// instantiated at the Skolem constants.
func (e *Enc) safeEvalGoal(c *Clause, env *SpecEnv) string {
	savePol := e.pol
	e.pol = 1
	n0 := len(e.goalSkolems)
	g := e.safeEvalBool(c, env)
	e.pol = savePol
	if len(e.goalSkolems) > n0 {
		saveC := e.curGoalSkolems
		e.curGoalSkolems = e.goalSkolems[n0:]
		e.instantiateFacts(e.goalSkolems[n0:])
		e.curGoalSkolems = saveC
	}
	return g
}

// safeEvalHyp evaluates a clause that is about to be assumed.
func (e *Enc) safeEvalHyp(c *Clause, env *SpecEnv) string {
	savePol := e.pol
	e.pol = -1
	g := e.safeEvalBool(c, env)
	e.pol = savePol
	return g
}

func (e *Enc) safeEvalBool(c *Clause, env *SpecEnv) (out string) {
	defer func() {
		if r := recover(); r != nil {
			if se, ok := r.(specErr); ok {
				panic(contractErr{fmt.Sprintf("%s:%d: %s: %s", c.File, c.Line, c.Text, se.msg)})
			}
			panic(r)
		}
	}()
	return e.evalBool(c.Expr, env)
}

type contractErr struct{ msg string }

// loopClauses returns the clauses attached to a loop.
func (e *Enc) loopClauses(li *loopInfo) []*Clause {
	if e.fc == nil {
		return nil
	}
	return append(append([]*Clause{}, e.fc.Loops[0]...), e.fc.Loops[li.ordinal]...)
}

func (e *Enc) loopHead(f *frame, li *loopInfo, st *State) {
	b := li.head
	// entry values of the phis
	entryVals := map[*ssa.Phi]Val{}
	var phis []*ssa.Phi
	for _, ins := range b.Instrs {
		phi, ok := ins.(*ssa.Phi)
		if !ok {
			break
		}
		phis = append(phis, phi)
		var v Val
		first := true
		for i := len(b.Preds) - 1; i >= 0; i-- {
			p := b.Preds[i]
			if isBackEdge(p, b) {
				continue
			}
			c, ok := f.edge[[2]int{p.Index, b.Index}]
			if !ok {
				continue
			}
			in := e.value(f, phi.Edges[i])
			if in.Loc != nil {
				panic(unsupported("loop phi over interior pointer"))
			}
			if first {
				v, first = in, false
			} else {
				v = e.iteVal(c, in, v)
			}
		}
		entryVals[phi] = v
	}
	clauses := e.loopClauses(li)
	// 1. invariants hold on entry
	for _, phi := range phis {
		f.vals[phi] = entryVals[phi]
	}
	env := e.baseEnv(f, st)
	env.blk, env.atHead = b, true
	k := 0
	for _, c := range clauses {
		if c.Kind != "invariant" {
			continue
		}
		k++
		goal := e.safeEvalGoal(c, env)
		e.oblige("inv-entry", fmt.Sprintf("loop%d/%s", li.ordinal, clauseTag(c, "inv", k)), b.Instrs[0].Pos(), goal, c.Props, c.Text)
	}
	// 2. havoc everything the loop may change. The allocation counter moves first:
	// loop-carried references may point to objects allocated by earlier iterations.
	loopEntryNext := st.next
	{
		nn := e.fresh("next", "Int")
		e.assert(fmt.Sprintf("(>= %s %s)", nn, st.next))
		st.next = nn
	}
	for _, phi := range phis {
		nv := e.freshVal(shapeOf(phi.Type()), f.prefix+phi.Name())
		e.assumeLoaded(st, nv)
		f.vals[phi] = nv
	}
	mods, top := e.w.loopMods(f.fn, li)
	// heaps that the body writes only at objects allocated after loop entry
	if os.Getenv("GOVC_DEBUGLF") != "" {
		lf := e.w.loopFrame(f.fn, li)
		var ks []string
		for k, v := range lf {
			ks = append(ks, fmt.Sprintf("%s(%d)", k, len(v)))
		}
		sort.Strings(ks)
		fmt.Fprintf(os.Stderr, "loopframe %s loop%d top=%v nil=%v: %v\n", f.fn.Name(), li.ordinal, top, lf == nil, ks)
	}
	if lf := e.w.loopFrame(f.fn, li); lf != nil && !top && os.Getenv("GOVC_NOLOOPFRAME") == "" {
		rest := map[string]bool{}
		for n := range mods {
			phis, ok := lf[n]
			if !ok {
				rest[n] = true
				continue
			}
			var except []string
			for _, ph := range phis {
				if ev, ok := entryVals[ph]; ok && len(ev.Sub) > 0 {
					except = append(except, ev.Sub[0].T)
				}
			}
			e.havocHeapFramed(st, n, loopEntryNext, except)
		}
		mods = rest
	}
	e.havocHeapsLoop(st, mods, top)
	if e.trackOvf {
		st.ghosts["ovf"] = boolVal(e.fresh("ovf", "Bool"))
	}
	for g := range e.w.ghostDecls {
		if top || mods["ghost:"+g] {
			gd := e.w.ghostDecls[g]
			st.ghosts[g] = Val{Sh: gd.Sh, T: e.fresh("g_"+sanitize(g), gd.Sort)}
		}
	}
	// range-index loops: the hidden index starts at -1 and is only incremented below the length
	for _, phi := range phis {
		if phi.Comment == "rangeindex" && isRangeIndexPhi(phi) {
			e.assume(fmt.Sprintf("(and (<= (- 1) %s) (< %s 281474976710656))", f.vals[phi].T, f.vals[phi].T))
		}
	}
	// counted loops "for i := c; i < x; i++": i never drops below its start value (the guard
	// i < x keeps the increment from overflowing)
	for _, phi := range phis {
		if c, ok := countedLoopStart(phi, b); ok {
			e.assume(fmt.Sprintf("(<= %d %s)", c, f.vals[phi].T))
		}
	}
	// loop-carried slices that can only refer to backing arrays allocated by this activation
	for _, phi := range phis {
		if _, isSlice := phi.Type().Underlying().(*types.Slice); isSlice && sliceIsLocal(phi, map[ssa.Value]bool{}) && e.nextEntry != "" {
			v := f.vals[phi]
			e.assume(fmt.Sprintf("(or (= %s 0) (>= %s %s))", v.Sub[0].T, v.Sub[0].T, e.nextEntry))
		}
	}
	// 3. assume invariants
	env = e.baseEnv(f, st)
	env.blk, env.atHead = b, true
	for _, c := range clauses {
		if c.Kind != "invariant" {
			continue
		}
		e.assume(e.safeEvalHyp(c, env))
	}
	// remember head values for step/decreases clauses
	hv := map[string]Val{}
	for _, phi := range phis {
		if phi.Comment != "" {
			hv[phi.Comment] = f.vals[phi]
		}
	}
	f.headVal[b] = hv
	f.headSt[b] = st.clone()
}

func (fc *FuncContract) freshOnlyFrame() bool {
	if !fc.HasModifies {
		return false
	}
	for _, m := range fc.Modifies {
		if m != "fresh" {
			return false
		}
	}
	return true
}

// havocHeapsLoop: loop-head havoc. Under a modifies clause, a heap that is not
// allowed at type level can only have been written at objects allocated by this
// activation, so objects that existed at entry keep their values.
func (e *Enc) havocHeapsLoop(st *State, mods map[string]bool, top bool) {
	if e.fc == nil || !e.fc.HasModifies || top {
		e.havocHeaps(st, mods, top, e.nextEntry, false)
		return
	}
	hasFresh := false
	for _, m := range e.fc.Modifies {
		if m == "fresh" {
			hasFresh = true
		}
	}
	framed, plain := map[string]bool{}, map[string]bool{}
	for n := range mods {
		if hasFresh && len(e.notAllowedNames(map[string]bool{n: true}, false)) > 0 {
			framed[n] = true
		} else {
			plain[n] = true
		}
	}
	e.havocHeaps(st, plain, false, e.nextEntry, false)
	e.havocHeaps(st, framed, false, e.nextEntry, true)
}

// havocHeapFramed: one heap gets a fresh version that agrees with the old one on
// every object below bound other than the excepted ones.
func (e *Enc) havocHeapFramed(st *State, n, bound string, except []string) {
	if strings.HasPrefix(n, "ghost:") || strings.HasPrefix(n, "$") {
		return
	}
	old, ok := st.heaps[n]
	if !ok {
		if len(except) == 0 {
			st.markDirty(n, newDirty(true, bound))
		} else {
			st.markDirty(n, newDirty(false, ""))
		}
		return
	}
	nh := e.newHeapVersion(old, "l")
	nh.Prev, nh.Bound, nh.Except, nh.IsFrm = old, bound, except, true
	st.heaps[n] = nh
}

// havocHeaps replaces the named heaps (all heaps if top) by fresh versions.
// With frameFresh the new versions agree with the old ones on objects below
// bound. Heaps not yet used in this function are marked dirty so that their
// first use does not see the entry version.
func (e *Enc) havocHeaps(st *State, mods map[string]bool, top bool, bound string, frameFresh bool) {
	rec := newDirty(frameFresh, bound)
	var names []string
	if top {
		for n := range st.heaps {
			names = append(names, n)
		}
		if st.allDirty != nil {
			st.allDirty = newDirty(st.allDirty.frame && frameFresh, st.allDirty.bound)
		} else {
			st.allDirty = rec
		}
		// a global havoc supersedes earlier per-name records
		for k := range st.dirty {
			delete(st.dirty, k)
		}
	} else {
		for n := range mods {
			if strings.HasPrefix(n, "ghost:") || strings.HasPrefix(n, "$") {
				continue
			}
			if _, ok := st.heaps[n]; ok {
				names = append(names, n)
			} else {
				st.markDirty(n, rec)
			}
		}
	}
	sort.Strings(names)
	for _, n := range names {
		old := st.heaps[n]
		nh := e.newHeapVersion(old, "h")
		if frameFresh {
			nh.Prev, nh.Bound, nh.IsFrm = old, bound, true
		}
		st.heaps[n] = nh
	}
}

func (e *Enc) checkBackEdge(f *frame, li *loopInfo, from *ssa.BasicBlock, st *State) {
	b := li.head
	clauses := e.loopClauses(li)
	if len(clauses) == 0 {
		return
	}
	// values of the phis along this edge
	idx := -1
	for i, p := range b.Preds {
		if p == from {
			idx = i
		}
	}
	saved := map[*ssa.Phi]Val{}
	oldVars := map[string]Val{}
	for _, ins := range b.Instrs {
		phi, ok := ins.(*ssa.Phi)
		if !ok {
			break
		}
		saved[phi] = f.vals[phi]
		if phi.Comment != "" {
			oldVars[phi.Comment] = f.vals[phi]
		}
	}
	for phi := range saved {
		f.vals[phi] = e.value(f, phi.Edges[idx])
	}
	defer func() {
		for phi, v := range saved {
			f.vals[phi] = v
		}
	}()
	reach := f.edge[[2]int{from.Index, b.Index}]
	saveReach := e.curReach
	e.curReach = reach
	defer func() { e.curReach = saveReach }()

	env := e.baseEnv(f, st)
	env.blk, env.atHead = b, true // loop-carried names resolve to the phi (now bound to edge values)
	envBody := e.baseEnv(f, st)
	envBody.blk = from // body-local names resolve at the end of the back-edge source
	envBody.oldVars = oldVars
	envBody.old = f.headSt[b]
	// loop-carried names take their edge values in the body env too
	for _, ins := range b.Instrs {
		phi, ok := ins.(*ssa.Phi)
		if !ok {
			break
		}
		if phi.Comment != "" {
			envBody.vars[phi.Comment] = f.vals[phi]
		}
	}
	ki, ks, kd := 0, 0, 0
	tag := fmt.Sprintf("loop%d", li.ordinal)
	if len(li.backs) > 1 {
		for i, x := range li.backs {
			if x == from {
				tag = fmt.Sprintf("loop%d.back%d", li.ordinal, i+1)
			}
		}
	}
	// probes: values a replay needs (loop-carried variables before and after the iteration, "probe" clauses)
	var probes []Probe
	for name, v := range oldVars {
		for i, t := range flatten(v) {
			probes = append(probes, Probe{fmt.Sprintf("old.%s.%d", name, i), t})
		}
		if nv, ok := envBody.vars[name]; ok {
			for i, t := range flatten(nv) {
				probes = append(probes, Probe{fmt.Sprintf("%s.%d", name, i), t})
			}
		}
	}
	for _, c := range clauses {
		if c.Kind != "probe" {
			continue
		}
		func() {
			mode := e.saveMode()
			defer func() {
				if r := recover(); r != nil {
					e.restoreMode(mode)
				}
			}()
			v := e.evalSpec(c.Expr, envBody)
			for i, t := range flatten(v) {
				probes = append(probes, Probe{fmt.Sprintf("%s.%d", c.Text, i), t})
			}
		}()
	}
	nObl := len(e.obls)
	defer func() {
		for _, o := range e.obls[nObl:] {
			o.Probes = append(o.Probes, probes...)
		}
	}()
	for _, c := range clauses {
		switch c.Kind {
		case "invariant":
			ki++
			goal := e.safeEvalGoal(c, env)
			e.oblige("inv-preserved", fmt.Sprintf("%s/%s", tag, clauseTag(c, "inv", ki)), from.Instrs[len(from.Instrs)-1].Pos(), goal, c.Props, c.Text)
		case "step":
			ks++
			goal := e.safeEvalGoal(c, envBody)
			e.oblige("step", fmt.Sprintf("%s/%s", tag, clauseTag(c, "step", ks)), from.Instrs[len(from.Instrs)-1].Pos(), goal, c.Props, c.Text)
		case "decreases":
			kd++
			cur := e.evalSpec(c.Expr, envBody)
			oe := *envBody
			oe.vars = map[string]Val{}
			for k, v := range envBody.vars {
				oe.vars[k] = v
			}
			for k, v := range oldVars {
				oe.vars[k] = v
			}
			oe.st = f.headSt[b]
			oe.blk, oe.atHead = b, true
			old := e.evalSpec(c.Expr, &oe)
			goal := fmt.Sprintf("(and (<= 0 %s) (< %s %s))", old.T, cur.T, old.T)
			e.oblige("decreases", fmt.Sprintf("%s/dec%d", tag, kd), from.Instrs[len(from.Instrs)-1].Pos(), goal, c.Props, c.Text)
		}
	}
}

// resolveLocal finds the SSA value of a source-level local variable at the
// beginning (atHead) or end of block b, using phi comments and DebugRefs along
// the dominator chain.
func (e *Enc) resolveLocal(f *frame, b *ssa.BasicBlock, name string, atHead bool, st *State) (Val, bool) {
	blk := b
	first := true
	for blk != nil {
		instrs := blk.Instrs
		scanBody := !(first && atHead)
		if scanBody {
			for i := len(instrs) - 1; i >= 0; i-- {
				if dr, ok := instrs[i].(*ssa.DebugRef); ok {
					if id, ok := dr.Expr.(*ast.Ident); ok && id.Name == name {
						if tv, isVar := dr.Object().(*types.Var); !isVar || tv.IsField() {
							continue
						}
						v, ok := f.vals[dr.X]
						if !ok {
							if c, isC := dr.X.(*ssa.Const); isC {
								v = e.constVal(c)
							} else if _, isP := dr.X.(*ssa.Parameter); isP {
								v = e.value(f, dr.X)
							} else {
								continue
							}
						}
						if dr.IsAddr {
							if pt, ok := dr.X.Type().Underlying().(*types.Pointer); ok && isLibStruct(pt.Elem()) {
								return v, true // library object: the reference itself
							}
							loc := v.Loc
							if loc == nil {
								pt := dr.X.Type().Underlying().(*types.Pointer)
								loc = &Loc{Base: v.T, Path: pathForType(pt.Elem()), Sh: shapeOf(pt.Elem())}
							}
							return e.load(st, loc), true
						}
						return v, true
					}
				}
			}
		}
		for _, ins := range instrs {
			phi, ok := ins.(*ssa.Phi)
			if !ok {
				break
			}
			if phi.Comment == name {
				if v, ok := f.vals[phi]; ok {
					return v, true
				}
			}
		}
		first = false
		blk = blk.Idom()
	}
	for i, p := range f.fn.Params {
		if p.Name() == name {
			return f.params[i], true
		}
	}
	// the variable exists in the function but has no value that dominates this
	// point (it belongs to another branch): an arbitrary value of its type.
	for _, bb := range f.fn.Blocks {
		for _, ins := range bb.Instrs {
			if dr, ok := ins.(*ssa.DebugRef); ok {
				if id, ok := dr.Expr.(*ast.Ident); ok && id.Name == name {
					if v, isVar := dr.Object().(*types.Var); isVar && !v.IsField() {
						nv := e.freshVal(shapeOf(v.Type()), "undef_"+sanitize(name))
						return nv, true
					}
				}
			}
		}
	}
	return Val{}, false
}

// isRangeIndexPhi: phi [entry: -1, back edges: phi+1] as emitted by the SSA builder for range loops.
func isRangeIndexPhi(phi *ssa.Phi) bool {
	for _, ed := range phi.Edges {
		if c, ok := ed.(*ssa.Const); ok {
			if c.Int64() != -1 {
				return false
			}
			continue
		}
		b, ok := ed.(*ssa.BinOp)
		if !ok || b.Op.String() != "+" || b.X != ssa.Value(phi) {
			return false
		}
		if c, ok := b.Y.(*ssa.Const); !ok || c.Int64() != 1 {
			return false
		}
		// the increment is used by the loop condition "t < len": accepted as bounded
	}
	return true
}

// clauseTag: a loop clause is named by its @label when it has one, else by kind and ordinal.
func clauseTag(c *Clause, kind string, k int) string {
	if c.Label != "" {
		return c.Label
	}
	return fmt.Sprintf("%s%d", kind, k)
}

// countedLoopStart: phi = [c, phi+1, ...] at a loop head whose condition is
// "phi < x": returns c.
func countedLoopStart(phi *ssa.Phi, head *ssa.BasicBlock) (int64, bool) {
	if bt, ok := phi.Type().Underlying().(*types.Basic); !ok || bt.Info()&types.IsInteger == 0 {
		return 0, false
	}
	var start int64
	haveStart := false
	for _, ed := range phi.Edges {
		if c, ok := ed.(*ssa.Const); ok {
			if haveStart && c.Int64() != start {
				return 0, false
			}
			start, haveStart = c.Int64(), true
			continue
		}
		b, ok := ed.(*ssa.BinOp)
		if !ok || b.Op != token.ADD || b.X != ssa.Value(phi) {
			return 0, false
		}
		if c, ok := b.Y.(*ssa.Const); !ok || c.Int64() != 1 {
			return 0, false
		}
	}
	if !haveStart || len(head.Instrs) == 0 {
		return 0, false
	}
	ifi, ok := head.Instrs[len(head.Instrs)-1].(*ssa.If)
	if !ok {
		return 0, false
	}
	cond, ok := ifi.Cond.(*ssa.BinOp)
	if !ok || cond.Op != token.LSS || cond.X != ssa.Value(phi) {
		return 0, false
	}
	return start, true
}
