package main

import (
	"path/filepath"
	"bytes"
	"fmt"
	"go/ast"
	"go/printer"
	"go/token"
	"go/types"
	"os"
	"sort"
	"strings"

	"golang.org/x/tools/go/ast/astutil"
	"golang.org/x/tools/go/packages"
	"golang.org/x/tools/go/ssa"
	"golang.org/x/tools/go/ssa/ssautil"
)

const repoPkgPath = "github.com/influxdata/influxql"

type World struct {
	repoDir    string
	fset       *token.FileSet
	prog       *ssa.Program
	pkg        *ssa.Package
	tpkg       *packages.Package
	contracts  *Contracts
	ghostDecls map[string]*GhostDecl
	typeTags   map[string]int
	tagTypes   []types.Type
	tagNames   []string
	funcIDs    map[*ssa.Function]int
	globalIDs  map[*ssa.Global]int
	funcsByNm  map[string]*ssa.Function
	allFuncs   []*ssa.Function
	implicit   []string // functions that got the default sweep contract on this run
	mods       map[*ssa.Function]*modInfo
	files      map[string]*ast.File
	siteNames  map[siteKey]string
	libFuncs   map[string]*ssa.Function
}

type siteKey struct {
	fn  *ssa.Function
	pos token.Pos
	op  string
}

func loadWorld(repoDir string) (*World, error) {
	cfg := &packages.Config{Mode: packages.LoadAllSyntax, Dir: repoDir, BuildFlags: []string{"-tags=verif"},
		Env: append(os.Environ(), "GOFLAGS=-mod=mod", "GOPROXY=off", "GOSUMDB=off", "GOTOOLCHAIN=local")}
	pkgs, err := packages.Load(cfg, ".")
	if err != nil {
		return nil, err
	}
	if len(pkgs) != 1 {
		return nil, fmt.Errorf("expected one package, got %d", len(pkgs))
	}
	if len(pkgs[0].Errors) > 0 {
		return nil, fmt.Errorf("package errors: %v", pkgs[0].Errors)
	}
	prog, spkgs := ssautil.AllPackages(pkgs, ssa.GlobalDebug|ssa.InstantiateGenerics)
	prog.Build()
	w := &World{repoDir: repoDir, fset: pkgs[0].Fset, prog: prog, pkg: spkgs[0], tpkg: pkgs[0],
		typeTags: map[string]int{}, funcIDs: map[*ssa.Function]int{}, globalIDs: map[*ssa.Global]int{},
		funcsByNm: map[string]*ssa.Function{}, mods: map[*ssa.Function]*modInfo{}, files: map[string]*ast.File{},
		siteNames: map[siteKey]string{}, ghostDecls: map[string]*GhostDecl{}}
	w.tagTypes = append(w.tagTypes, nil)
	w.tagNames = append(w.tagNames, "nil")
	for _, f := range pkgs[0].Syntax {
		w.files[w.fset.Position(f.Pos()).Filename] = f
	}
	// all functions of the package, including methods and closures
	for fn := range ssautil.AllFunctions(prog) {
		if fn.Pkg == w.pkg || (fn.Pkg == nil && fn.Object() != nil && fn.Object().Pkg() != nil && fn.Object().Pkg().Path() == repoPkgPath) {
			w.allFuncs = append(w.allFuncs, fn)
		}
	}
	sort.Slice(w.allFuncs, func(i, j int) bool { return w.allFuncs[i].String() < w.allFuncs[j].String() })
	for i, fn := range w.allFuncs {
		w.funcIDs[fn] = i + 1
		w.funcsByNm[w.funcName(fn)] = fn
	}
	// globals get fixed small references
	var gl []*ssa.Global
	for _, m := range w.pkg.Members {
		if g, ok := m.(*ssa.Global); ok {
			gl = append(gl, g)
		}
	}
	sort.Slice(gl, func(i, j int) bool { return gl[i].Name() < gl[j].Name() })
	for i, g := range gl {
		w.globalIDs[g] = i + 1
	}
	cs, err := loadContracts(repoDir, nil)
	if err != nil {
		return nil, err
	}
	w.contracts = cs
	// functions of the current tree that no contract file mentions (code added
	// after the contract files were written) get the default sweep contract
	if txt := w.implicitContracts(); txt != "" {
		cs, err = loadContracts(repoDir, map[string]string{"<implicit sweep contracts>": txt})
		if err != nil {
			return nil, err
		}
		w.contracts = cs
	}
	for n, g := range cs.Ghosts {
		switch g.Sort {
		case "Int":
			g.Sh = intShape
		case "Bool":
			g.Sh = boolShape
		case "Str":
			g.Sh = strShape
		default:
			g.Sh = &Shape{K: KOpaque}
		}
		w.ghostDecls[n] = g
	}
	return w, nil
}

func (w *World) numGlobals() int { return len(w.globalIDs) }

func (w *World) funcID(fn *ssa.Function) int {
	if id, ok := w.funcIDs[fn]; ok {
		return id
	}
	id := len(w.funcIDs) + 1000
	w.funcIDs[fn] = id
	return id
}

func (w *World) globalID(g *ssa.Global) int {
	if id, ok := w.globalIDs[g]; ok {
		return id
	}
	id := len(w.globalIDs) + 1
	w.globalIDs[g] = id
	return id
}

// funcName: "F", "(*T).M", "(T).M", "F$1" relative to the package.
func (w *World) funcName(fn *ssa.Function) string {
	s := fn.RelString(w.pkg.Pkg)
	return s
}

func (w *World) lookupFunc(name string) *ssa.Function {
	if fn, ok := w.funcsByNm[name]; ok {
		return fn
	}
	// accept T.M for (T).M or (*T).M
	if i := strings.Index(name, "."); i > 0 && !strings.HasPrefix(name, "(") {
		t, m := name[:i], name[i+1:]
		if fn, ok := w.funcsByNm["(*"+t+")."+m]; ok {
			return fn
		}
		if fn, ok := w.funcsByNm["("+t+")."+m]; ok {
			return fn
		}
	}
	return nil
}

func (w *World) typeTag(t types.Type) int {
	k := typeKey(t)
	if id, ok := w.typeTags[k]; ok {
		return id
	}
	id := len(w.tagTypes)
	w.typeTags[k] = id
	w.tagTypes = append(w.tagTypes, t)
	w.tagNames = append(w.tagNames, k)
	return id
}

func (w *World) namedTag(name string) int {
	if id, ok := w.typeTags[name]; ok {
		return id
	}
	id := len(w.tagTypes)
	w.typeTags[name] = id
	w.tagTypes = append(w.tagTypes, nil)
	w.tagNames = append(w.tagNames, name)
	return id
}

// pointer-like tags (dynamic values are references)
func (w *World) ptrTagsDef() string {
	var cs []string
	for i, t := range w.tagTypes {
		if i == 0 {
			continue
		}
		if t == nil {
			if strings.HasPrefix(w.tagNames[i], "*") {
				cs = append(cs, fmt.Sprintf("(= t %d)", i))
			}
			continue
		}
		switch t.Underlying().(type) {
		case *types.Pointer, *types.Map, *types.Chan:
			cs = append(cs, fmt.Sprintf("(= t %d)", i))
		}
	}
	return "(define-fun isptrtype ((t Int)) Bool " + or(cs...) + ")"
}

// implementers: tags of the package's concrete types (T and *T) implementing it.
func (w *World) implementers(it *types.Interface) []int {
	var out []int
	scope := w.pkg.Pkg.Scope()
	for _, n := range scope.Names() {
		tn, ok := scope.Lookup(n).(*types.TypeName)
		if !ok || tn.IsAlias() {
			continue
		}
		t := tn.Type()
		if _, isI := t.Underlying().(*types.Interface); isI {
			continue
		}
		if types.Implements(t, it) {
			out = append(out, w.typeTag(t))
		}
		if pt := types.NewPointer(t); types.Implements(pt, it) {
			out = append(out, w.typeTag(pt))
		}
	}
	// basic types boxed into interface{}-like interfaces
	if it.NumMethods() == 0 {
		return nil
	}
	sort.Ints(out)
	return out
}

// openInterface: may values of types from outside the package flow into it?
func (w *World) openInterface(it *types.Interface) bool {
	if it.NumMethods() == 0 {
		return true
	}
	// sealed interfaces have an unexported method (node(), stmt(), expr(), ...)
	for i := 0; i < it.NumMethods(); i++ {
		if !it.Method(i).Exported() && it.Method(i).Pkg() != nil && it.Method(i).Pkg().Path() == repoPkgPath {
			return false
		}
	}
	return true
}

func (w *World) resolveType(x ast.Expr) types.Type {
	switch n := x.(type) {
	case *ast.ParenExpr:
		return w.resolveType(n.X)
	case *ast.StarExpr:
		return types.NewPointer(w.resolveType(n.X))
	case *ast.ArrayType:
		if n.Len == nil {
			return types.NewSlice(w.resolveType(n.Elt))
		}
	case *ast.SelectorExpr:
		if id, ok := n.X.(*ast.Ident); ok {
			for _, imp := range w.pkg.Pkg.Imports() {
				if imp.Name() == id.Name {
					if o := imp.Scope().Lookup(n.Sel.Name); o != nil {
						return o.Type()
					}
				}
			}
		}
	case *ast.Ident:
		if o := w.pkg.Pkg.Scope().Lookup(n.Name); o != nil {
			if tn, ok := o.(*types.TypeName); ok {
				return tn.Type()
			}
		}
		if o := types.Universe.Lookup(n.Name); o != nil {
			if tn, ok := o.(*types.TypeName); ok {
				return tn.Type()
			}
		}
	case *ast.InterfaceType:
		return types.NewInterfaceType(nil, nil)
	case *ast.MapType:
		return types.NewMap(w.resolveType(n.Key), w.resolveType(n.Value))
	}
	specFail("cannot resolve type %s", exprString(x))
	panic("unreachable")
}

func exprString(x ast.Node) string {
	var b bytes.Buffer
	printer.Fprint(&b, token.NewFileSet(), x)
	return b.String()
}

// siteName: a line-independent name for an instruction: the source text of the
// smallest expression around its position.
func (w *World) siteName(top *ssa.Function, ps token.Position, in ssa.Instruction) string {
	f := w.files[ps.Filename]
	if f == nil {
		return fmt.Sprintf("b%d", in.Block().Index)
	}
	pos := in.Pos()
	path, _ := astutil.PathEnclosingInterval(f, pos, pos)
	var node ast.Node
	for _, n := range path {
		if _, ok := n.(*ast.Ident); ok {
			continue
		}
		if _, ok := n.(ast.Expr); ok {
			node = n
			break
		}
		if _, ok := n.(ast.Stmt); ok {
			node = n
			break
		}
	}
	if node == nil {
		return fmt.Sprintf("b%d", in.Block().Index)
	}
	s := exprString(node)
	s = strings.Join(strings.Fields(s), " ")
	if len(s) > 48 {
		s = s[:48] + "…"
	}
	// qualify with the enclosing function when it is not the one under contract (inlined callee)
	if in.Parent() != top {
		s = in.Parent().Name() + ":" + s
	}
	return s
}

// ---------------------------------------------------------------------------
// mod-set analysis: which heaps may a function write (type-level names)?

type modInfo struct {
	names     map[string]bool
	top       bool
	dynParams map[int]bool // parameters (by index) that are called / invoked
	callees   []*ssa.CallCommon
	done      bool
}

// addrPath mirrors the executor's location naming for a store address.
func addrPath(v ssa.Value) (string, *Shape, bool) {
	switch x := v.(type) {
	case *ssa.FieldAddr:
		p, sh, ok := addrPath(x.X)
		if !ok || sh.K != KStruct {
			return "", nil, false
		}
		return p + "." + sh.Names[x.Field], sh.Sub[x.Field], true
	case *ssa.IndexAddr:
		switch xt := x.X.Type().Underlying().(type) {
		case *types.Slice:
			return elemPath(xt.Elem()), shapeOf(xt.Elem()), true
		case *types.Pointer:
			p, sh, ok := addrPath(x.X)
			if !ok || sh.K != KArray {
				return "", nil, false
			}
			if !strings.HasSuffix(p, "[]") {
				p += "[]"
			}
			return p, sh.Elem, true
		}
		return "", nil, false
	case *ssa.Global:
		pt := x.Type().(*types.Pointer).Elem()
		return "Global#" + x.Name(), shapeOf(pt), true
	}
	pt, ok := v.Type().Underlying().(*types.Pointer)
	if !ok {
		return "", nil, false
	}
	return pathForType(pt.Elem()), shapeOf(pt.Elem()), true
}

// heapSorts: SMT sort of every heap name met by the mod-set analysis.
var heapSorts = map[string]string{}

func leafNames(path string, sh *Shape) []string {
	var out []string
	defer func() {
		for _, n := range out {
			if _, ok := heapSorts[n]; !ok {
				// kind is recovered below
			}
		}
	}()
	var rec func(sh *Shape, p string)
	rec = func(sh *Shape, p string) {
		switch sh.K {
		case KStruct:
			for i, s := range sh.Sub {
				rec(s, p+"."+sh.Names[i])
			}
		case KArray:
			if strings.HasSuffix(p, "[]") {
				rec(sh.Elem, p)
			} else {
				rec(sh.Elem, p+"[]")
			}
		case KTuple:
		default:
			for _, l := range leavesOf(sh) {
				out = append(out, p+l.Path)
				heapSorts[p+l.Path] = heapSort(l.K, strings.Contains(p, "[]"))
			}
		}
	}
	rec(sh, path)
	return out
}

func (w *World) directMods(fn *ssa.Function, blocks map[*ssa.BasicBlock]bool) *modInfo {
	inLoop := blocks != nil // the function's own loop: writes to its local objects count
	mi := &modInfo{names: map[string]bool{}, dynParams: map[int]bool{}}
	for _, b := range fn.Blocks {
		if blocks != nil && !blocks[b] {
			continue
		}
		for _, ins := range b.Instrs {
			switch in := ins.(type) {
			case *ssa.Store:
				if !inLoop && rootIsLocalAlloc(in.Addr) {
					continue // initialisation of an object allocated by this activation: not a write to memory the caller knows
				}
				p, sh, ok := addrPath(in.Addr)
				if !ok {
					mi.top = true
					continue
				}
				for _, n := range leafNames(p, sh) {
					mi.names[n] = true
				}
			case *ssa.MapUpdate:
				if _, local := in.Map.(*ssa.MakeMap); local && !inLoop {
					continue
				}
				mt := in.Map.Type().Underlying().(*types.Map)
				p := mapPath(mt)
				mi.names[p+"#has"] = true
				mi.names[p+"#len"] = true
				ks := keySort(mt)
				heapSorts[p+"#has"] = "(Array Int (Array " + ks + " Bool))"
				heapSorts[p+"#len"] = "(Array Int Int)"
				for _, l := range leavesOf(shapeOf(mt.Elem())) {
					mi.names[p+"#val"+l.Path] = true
					heapSorts[p+"#val"+l.Path] = "(Array Int (Array " + ks + " " + l.K.Sort() + "))"
				}
			case ssa.CallInstruction:
				c := in.Common()
				if b, ok := c.Value.(*ssa.Builtin); ok {
					switch b.Name() {
					case "append", "copy":
						if !inLoop && sliceIsLocal(c.Args[0], map[ssa.Value]bool{}) {
							continue // grows / fills a slice whose backing array was allocated by this activation
						}
						if st, ok := c.Args[0].Type().Underlying().(*types.Slice); ok {
							for _, n := range leafNames(elemPath(st.Elem()), shapeOf(st.Elem())) {
								mi.names[n] = true
							}
						}
					case "delete":
						mt := c.Args[0].Type().Underlying().(*types.Map)
						mi.names[mapPath(mt)+"#has"] = true
						mi.names[mapPath(mt)+"#len"] = true
						heapSorts[mapPath(mt)+"#has"] = "(Array Int (Array " + keySort(mt) + " Bool))"
						heapSorts[mapPath(mt)+"#len"] = "(Array Int Int)"
					}
					continue
				}
				mi.callees = append(mi.callees, c)
			case *ssa.Go, *ssa.Defer, *ssa.Send, *ssa.Select:
				mi.top = true
			}
		}
	}
	return mi
}

// effectOfValue: the heaps written when the function / interface value v is
// called or has methods invoked on it. ok=false means unknown (top).
func (w *World) effectOfValue(caller *ssa.Function, v ssa.Value, out *modInfo, seen map[*ssa.Function]bool) {
	if caller != nil {
		if o := paramOrigin(caller, v, 0); o >= 0 {
			out.dynParams[o] = true
			return
		}
	}
	switch x := v.(type) {
	case *ssa.Function:
		w.addFnEffect(x, out, seen)
	case *ssa.MakeClosure:
		w.addFnEffect(x.Fn.(*ssa.Function), out, seen)
	case *ssa.ChangeType:
		w.effectOfValue(caller, x.X, out, seen)
	case *ssa.ChangeInterface:
		w.effectOfValue(caller, x.X, out, seen)
	case *ssa.MakeInterface:
		// methods of the concrete type
		t := x.X.Type()
		ms := w.prog.MethodSets.MethodSet(t)
		for i := 0; i < ms.Len(); i++ {
			if m := w.prog.MethodValue(ms.At(i)); m != nil {
				if m.Pkg == w.pkg || m.Pkg == nil {
					mm := w.modInfoOf(m, seen)
					w.merge(out, mm)
					if mm.dynParams[0] {
						w.effectOfValue(caller, x.X, out, seen)
					}
				}
				// library methods: assumed not to write package memory
			}
		}
	case *ssa.Parameter:
		for i, p := range caller.Params {
			if p == x {
				out.dynParams[i] = true
				return
			}
		}
		out.top = true
	case *ssa.Const:
		// nil function / interface: a call would panic, no write
	default:
		out.top = true
	}
}

func (w *World) merge(dst, src *modInfo) {
	if src.top {
		dst.top = true
	}
	for n := range src.names {
		dst.names[n] = true
	}
}

func (w *World) addFnEffect(fn *ssa.Function, out *modInfo, seen map[*ssa.Function]bool) {
	if fn.Pkg != w.pkg && !(fn.Pkg == nil && fn.Parent() != nil) {
		if fn.Synthetic != "" && fn.Object() != nil {
			if fo, ok := fn.Object().(*types.Func); ok {
				if m := w.prog.FuncValue(fo); m != nil && m != fn && m.Pkg == w.pkg {
					w.merge(out, w.modInfoOf(m, seen))
					return
				}
			}
		}
		if libWritesArgs[fn.String()] {
			out.top = true
		}
		if strings.HasPrefix(fn.String(), "(*strings.Builder)") || strings.HasPrefix(fn.String(), "(*bytes.Buffer)") {
			out.names["Lib#content"] = true
		}
		return // library: assumed not to write package-visible memory
	}
	w.merge(out, w.modInfoOf(fn, seen))
}

// modInfoOf computes the transitive mod-set. Recursion is handled by a
// fixpoint over the set of functions currently being visited.
func (w *World) modInfoOf(fn *ssa.Function, seen map[*ssa.Function]bool) *modInfo {
	if mi, ok := w.mods[fn]; ok && mi.done {
		return mi
	}
	if seen[fn] {
		// recursion: partial result; the outermost visit iterates to a fixpoint
		if mi, ok := w.mods[fn]; ok {
			return mi
		}
		return &modInfo{names: map[string]bool{}, dynParams: map[int]bool{}}
	}
	seen[fn] = true
	defer delete(seen, fn)
	if len(fn.Blocks) == 0 {
		mi := &modInfo{names: map[string]bool{}, dynParams: map[int]bool{}, done: true}
		w.mods[fn] = mi
		return mi
	}
	mi := w.directMods(fn, nil)
	w.mods[fn] = mi
	for iter := 0; iter < 6; iter++ {
		before := len(mi.names)
		beforeTop := mi.top
		beforeDyn := len(mi.dynParams)
		for _, c := range mi.callees {
			w.calleeEffect(fn, c, mi, seen)
		}
		if len(mi.names) == before && mi.top == beforeTop && len(mi.dynParams) == beforeDyn {
			break
		}
	}
	if len(seen) == 1 {
		mi.done = true
	} else {
		// part of a possibly recursive visit: only final if no cycle touched us; conservatively recompute later
		mi.done = !w.inCycle(fn)
	}
	return mi
}

func (w *World) inCycle(fn *ssa.Function) bool {
	// cheap test: can fn reach itself through static calls?
	seen := map[*ssa.Function]bool{}
	var stack []*ssa.Function
	push := func(f *ssa.Function) {
		for _, b := range f.Blocks {
			for _, ins := range b.Instrs {
				if c, ok := ins.(ssa.CallInstruction); ok {
					if callee := c.Common().StaticCallee(); callee != nil && !seen[callee] {
						seen[callee] = true
						stack = append(stack, callee)
					}
				}
				if mc, ok := ins.(*ssa.MakeClosure); ok {
					cf := mc.Fn.(*ssa.Function)
					if !seen[cf] {
						seen[cf] = true
						stack = append(stack, cf)
					}
				}
			}
		}
	}
	push(fn)
	for len(stack) > 0 {
		f := stack[len(stack)-1]
		stack = stack[:len(stack)-1]
		if f == fn {
			return true
		}
		push(f)
	}
	return false
}

// paramOrigin: the parameter a visitor-like value derives from: the parameter
// itself, a phi of such values, or the result of invoking a method of the same
// interface on such a value (Visitor.Visit / Rewriter-style "return the visitor
// for the children"; implementations are assumed to return themselves, nil, or
// a value with the same effects).
func paramOrigin(caller *ssa.Function, v ssa.Value, depth int) int {
	if depth > 6 {
		return -1
	}
	switch x := v.(type) {
	case *ssa.Parameter:
		for i, p := range caller.Params {
			if p == x {
				return i
			}
		}
	case *ssa.Phi:
		res := -2
		for _, e := range x.Edges {
			if e == v {
				continue
			}
			o := paramOrigin(caller, e, depth+1)
			if o < 0 {
				if _, isPhi := e.(*ssa.Phi); isPhi {
					continue // cyclic phi
				}
				return -1
			}
			if res == -2 {
				res = o
			} else if res != o {
				return -1
			}
		}
		if res >= 0 {
			return res
		}
	case *ssa.Call:
		if x.Common().IsInvoke() && types.Identical(x.Common().Value.Type(), x.Type()) {
			return paramOrigin(caller, x.Common().Value, depth+1)
		}
	case *ssa.ChangeInterface:
		return paramOrigin(caller, x.X, depth+1)
	}
	return -1
}

func (w *World) calleeEffect(caller *ssa.Function, c *ssa.CallCommon, out *modInfo, seen map[*ssa.Function]bool) {
	if c.IsInvoke() {
		if _, ok := libInvoke[typeKey(c.Value.Type())+"."+c.Method.Name()]; ok {
			out.names["Lib#rscur"] = true
		}
		if o := paramOrigin(caller, c.Value, 0); o >= 0 && !w.trustedIface(c.Value.Type()) {
			// the implementation is chosen by our caller: accounted for at the call site
			out.dynParams[o] = true
			return
		}
		mods, top := w.invokeModsSeen(c, seen)
		if top && !w.trustedIface(c.Value.Type()) {
			out.top = true
		}
		for n := range mods {
			out.names[n] = true
		}
		return
	}
	if callee := c.StaticCallee(); callee != nil && sortCallNames(c) != nil {
		for _, n := range sortCallNames(c) {
			out.names[n] = true
		}
		return
	}
	if callee := c.StaticCallee(); callee != nil {
		if callee.Pkg != w.pkg && !(callee.Pkg == nil && callee.Parent() != nil) {
			w.addFnEffect(callee, out, seen)
			return
		}
		cm := w.modInfoOf(callee, seen)
		w.merge(out, cm)
		// closures: bindings are fine; dynamic params of the callee take our arguments
		for i := range cm.dynParams {
			if i < len(c.Args) {
				w.effectOfValue(caller, c.Args[i], out, seen)
			}
		}
		return
	}
	// call of a function value
	w.effectOfValue(caller, c.Value, out, seen)
}

// trustedIface: interfaces implemented by users of the package, whose
// implementations are assumed not to write package-visible memory.
func (w *World) trustedIface(t types.Type) bool {
	switch typeKey(t) {
	case "Value", "Valuer", "CallValuer", "ZoneValuer", "FieldMapper", "TypeMapper", "CallTypeMapper", "io.Reader", "io.RuneScanner", "io.RuneReader", "error", "fmt.Stringer", "sort.Interface":
		return true
	}
	return false
}

func (w *World) invokeMods(c *ssa.CallCommon) (map[string]bool, bool) {
	return w.invokeModsSeen(c, map[*ssa.Function]bool{})
}

func (w *World) invokeModsSeen(c *ssa.CallCommon, seen map[*ssa.Function]bool) (map[string]bool, bool) {
	it, ok := c.Value.Type().Underlying().(*types.Interface)
	if !ok {
		return nil, true
	}
	out := &modInfo{names: map[string]bool{}, dynParams: map[int]bool{}}
	// in-package implementers
	scope := w.pkg.Pkg.Scope()
	for _, n := range scope.Names() {
		tn, ok := scope.Lookup(n).(*types.TypeName)
		if !ok {
			continue
		}
		for _, t := range []types.Type{tn.Type(), types.NewPointer(tn.Type())} {
			if _, isI := t.Underlying().(*types.Interface); isI {
				continue
			}
			if !types.Implements(t, it) {
				continue
			}
			sel := w.prog.MethodSets.MethodSet(t).Lookup(c.Method.Pkg(), c.Method.Name())
			if sel == nil {
				continue
			}
			if m := w.prog.MethodValue(sel); m != nil {
				mm := w.modInfoOf(m, seen)
				w.merge(out, mm)
				if len(mm.dynParams) > 0 {
					out.top = true // e.g. walkFuncVisitor: calls its receiver
				}
			}
		}
	}
	if w.openInterface(it) && !w.trustedIface(c.Value.Type()) {
		out.top = true
	}
	return out.names, out.top
}

// invokeModsByType: for an interface method call, the heaps each in-package
// implementing type may write (type tag -> names). top: an implementation
// outside the package or a dynamic callee may write anything.
func (w *World) invokeModsByType(c *ssa.CallCommon) (map[int]map[string]bool, bool) {
	it, ok := c.Value.Type().Underlying().(*types.Interface)
	if !ok {
		return nil, true
	}
	seen := map[*ssa.Function]bool{}
	out := map[int]map[string]bool{}
	top := false
	scope := w.pkg.Pkg.Scope()
	for _, n := range scope.Names() {
		tn, ok := scope.Lookup(n).(*types.TypeName)
		if !ok {
			continue
		}
		for _, t := range []types.Type{tn.Type(), types.NewPointer(tn.Type())} {
			if _, isI := t.Underlying().(*types.Interface); isI {
				continue
			}
			if !types.Implements(t, it) {
				continue
			}
			sel := w.prog.MethodSets.MethodSet(t).Lookup(c.Method.Pkg(), c.Method.Name())
			if sel == nil {
				continue
			}
			if m := w.prog.MethodValue(sel); m != nil {
				mm := w.modInfoOf(m, seen)
				if mm.top || len(mm.dynParams) > 0 {
					top = true
				}
				names := map[string]bool{}
				for k := range mm.names {
					names[k] = true
				}
				out[w.typeTag(t)] = names
			}
		}
	}
	if w.openInterface(it) && !w.trustedIface(c.Value.Type()) {
		top = true
	}
	return out, top
}

// modSetOf: heaps a call to callee may write, given the call's arguments.
func (w *World) modSetOf(callee *ssa.Function, c *ssa.CallCommon, caller *ssa.Function) (map[string]bool, bool) {
	seen := map[*ssa.Function]bool{}
	out := &modInfo{names: map[string]bool{}, dynParams: map[int]bool{}}
	cm := w.modInfoOf(callee, seen)
	w.merge(out, cm)
	if c != nil {
		for i := range cm.dynParams {
			if i < len(c.Args) {
				if caller == nil {
					out.top = true
					continue
				}
				tmp := &modInfo{names: map[string]bool{}, dynParams: map[int]bool{}}
				w.effectOfValue(caller, c.Args[i], tmp, seen)
				w.merge(out, tmp)
				if len(tmp.dynParams) > 0 {
					out.top = true // depends on our own caller
				}
			}
		}
	} else if len(cm.dynParams) > 0 {
		out.top = true
	}
	return out.names, out.top
}

func (w *World) loopMods(fn *ssa.Function, li *loopInfo) (map[string]bool, bool) {
	mi := w.directMods(fn, li.blocks)
	seen := map[*ssa.Function]bool{}
	for _, c := range mi.callees {
		w.calleeEffect(fn, c, mi, seen)
	}
	if len(mi.dynParams) > 0 {
		// calls through our own parameters inside the loop
		hasContract := false
		if fc := w.contracts.Funcs[w.funcName(fn)]; fc != nil && len(fc.FnParams) > 0 {
			hasContract = true
			for _, ms := range fc.FnParams {
				for _, m := range ms {
					for _, h := range w.expandHeapPattern(m) {
						mi.names[h] = true
					}
				}
			}
		}
		if !hasContract {
			mi.top = true
		}
	}
	// library objects
	mi.names["Lib#content"] = true
	mi.names["Lib#rscur"] = true
	return mi.names, mi.top
}

// expandHeapPattern: "T.*" -> all leaf heaps of struct type T; otherwise the name itself.
func (w *World) expandHeapPattern(p string) []string {
	if strings.HasSuffix(p, ".*") {
		tn := strings.TrimSuffix(p, ".*")
		if o := w.pkg.Pkg.Scope().Lookup(tn); o != nil {
			if t, ok := o.(*types.TypeName); ok {
				return leafNames(pathForType(t.Type()), shapeOf(t.Type()))
			}
		}
	}
	return []string{p}
}

// canInline: small loop-free functions without contracts are inlined at call sites.
func (w *World) canInline(fn *ssa.Function) bool {
	if len(fn.Blocks) == 0 || len(fn.Blocks) > 40 {
		return false
	}
	loops, _ := computeLoops(fn)
	if len(loops) > 0 {
		return false
	}
	n := 0
	for _, b := range fn.Blocks {
		n += len(b.Instrs)
		for _, ins := range b.Instrs {
			if c, ok := ins.(ssa.CallInstruction); ok {
				if callee := c.Common().StaticCallee(); callee == fn {
					return false
				}
			}
		}
	}
	if n > 250 || w.inCycle(fn) {
		return false
	}
	// functions that call through their parameters are analysed at the call site, where the argument is known
	if mi := w.modInfoOf(fn, map[*ssa.Function]bool{}); len(mi.dynParams) > 0 {
		return false
	}
	return true
}

// fnTypeContract: the contract declared for function values of this signature, if any.
func (w *World) fnTypeContract(t types.Type) *FuncContract {
	sig, ok := t.Underlying().(*types.Signature)
	if !ok {
		return nil
	}
	key := sigKey(sig)
	for _, fc := range w.contracts.Funcs {
		if fc.FnType != "" && fc.FnType == key {
			return fc
		}
	}
	return nil
}

// fnValuesOfType: package functions of the signature that are used as values.
func (w *World) fnValuesOfType(key string) []*ssa.Function {
	var out []*ssa.Function
	used := map[*ssa.Function]bool{}
	for _, fn := range w.allFuncs {
		for _, b := range fn.Blocks {
			for _, ins := range b.Instrs {
				if mc, ok := ins.(*ssa.MakeClosure); ok {
					used[mc.Fn.(*ssa.Function)] = true
				}
				for _, op := range ins.Operands(nil) {
					if f, ok := (*op).(*ssa.Function); ok {
						if ci, isCall := ins.(ssa.CallInstruction); isCall && ci.Common().Value == f {
							continue
						}
						used[f] = true
					}
				}
			}
		}
	}
	for _, fn := range w.allFuncs {
		if used[fn] && sigKey(fn.Signature) == key && len(fn.Blocks) > 0 {
			out = append(out, fn)
		}
	}
	return out
}

// sigKey: "func(T1, T2) (R1, R2)" without parameter names.
func sigKey(sig *types.Signature) string {
	var ps, rs []string
	for i := 0; i < sig.Params().Len(); i++ {
		ps = append(ps, typeKey(sig.Params().At(i).Type()))
	}
	for i := 0; i < sig.Results().Len(); i++ {
		rs = append(rs, typeKey(sig.Results().At(i).Type()))
	}
	out := "func(" + strings.Join(ps, ", ") + ")"
	switch len(rs) {
	case 0:
	case 1:
		out += " " + rs[0]
	default:
		out += " (" + strings.Join(rs, ", ") + ")"
	}
	return out
}

// rootIsLocalAlloc: the address is a field/element path starting at an Alloc of the same function.
func rootIsLocalAlloc(v ssa.Value) bool {
	for {
		switch x := v.(type) {
		case *ssa.Alloc:
			return true
		case *ssa.FieldAddr:
			v = x.X
		case *ssa.IndexAddr:
			if _, isPtr := x.X.Type().Underlying().(*types.Pointer); isPtr {
				v = x.X
			} else {
				return sliceIsLocal(x.X, map[ssa.Value]bool{})
			}
		default:
			return false
		}
	}
}

// sliceIsLocal: the slice value can only refer to a backing array allocated by
// the current activation (or is nil).
func sliceIsLocal(v ssa.Value, seen map[ssa.Value]bool) bool {
	if seen[v] {
		return true
	}
	seen[v] = true
	switch x := v.(type) {
	case *ssa.Const:
		return x.Value == nil
	case *ssa.MakeSlice:
		return true
	case *ssa.Slice:
		if _, ok := x.X.(*ssa.Alloc); ok {
			return true
		}
		return sliceIsLocal(x.X, seen)
	case *ssa.Phi:
		for _, e := range x.Edges {
			if !sliceIsLocal(e, seen) {
				return false
			}
		}
		return true
	case *ssa.Call:
		if b, ok := x.Common().Value.(*ssa.Builtin); ok && b.Name() == "append" {
			return sliceIsLocal(x.Common().Args[0], seen)
		}
	case *ssa.ChangeType:
		return sliceIsLocal(x.X, seen)
	}
	return false
}

// libFunc finds a function of any loaded package by its full name ("strings.ToLower", "(*strings.Replacer).Replace").
func (w *World) libFunc(name string) *ssa.Function {
	if w.libFuncs == nil {
		w.libFuncs = map[string]*ssa.Function{}
		for fn := range ssautil.AllFunctions(w.prog) {
			w.libFuncs[fn.String()] = fn
		}
	}
	return w.libFuncs[name]
}

// returnSite: a line-independent name for a return statement: its source text.
func (w *World) returnSite(fn *ssa.Function, pos token.Pos) string {
	if !pos.IsValid() {
		return "return"
	}
	ps := w.fset.Position(pos)
	f := w.files[ps.Filename]
	if f == nil {
		return "return"
	}
	path, _ := astutil.PathEnclosingInterval(f, pos, pos)
	for _, n := range path {
		if r, ok := n.(*ast.ReturnStmt); ok {
			s := strings.Join(strings.Fields(exprString(r)), " ")
			if len(s) > 40 {
				s = s[:40] + "…"
			}
			return s
		}
	}
	return "return"
}

// readSet: heaps the function may load, transitively through static calls and
// in-package implementations of interface calls. top: an unknown callee.
func (w *World) readSet(fn *ssa.Function, seen map[*ssa.Function]bool, out map[string]bool) (top bool) {
	if seen[fn] {
		return false
	}
	seen[fn] = true
	for _, b := range fn.Blocks {
		for _, ins := range b.Instrs {
			switch in := ins.(type) {
			case *ssa.UnOp:
				if in.Op == token.MUL {
					if p, sh, ok := addrPath(in.X); ok {
						for _, n := range leafNames(p, sh) {
							out[n] = true
						}
					} else {
						top = true
					}
				}
			case ssa.CallInstruction:
				c := in.Common()
				if c.IsInvoke() {
					it, _ := c.Value.Type().Underlying().(*types.Interface)
					if it == nil {
						top = true
						continue
					}
					scope := w.pkg.Pkg.Scope()
					for _, n := range scope.Names() {
						tn, ok := scope.Lookup(n).(*types.TypeName)
						if !ok {
							continue
						}
						for _, t := range []types.Type{tn.Type(), types.NewPointer(tn.Type())} {
							if _, isI := t.Underlying().(*types.Interface); isI || !types.Implements(t, it) {
								continue
							}
							if sel := w.prog.MethodSets.MethodSet(t).Lookup(c.Method.Pkg(), c.Method.Name()); sel != nil {
								if m := w.prog.MethodValue(sel); m != nil {
									if w.readSet(m, seen, out) {
										top = true
									}
								}
							}
						}
					}
					continue
				}
				if callee := c.StaticCallee(); callee != nil {
					if callee.Pkg == w.pkg || (callee.Pkg == nil && callee.Parent() != nil) {
						if w.readSet(callee, seen, out) {
							top = true
						}
					}
					continue // library code cannot name the package's types
				}
				if _, isB := c.Value.(*ssa.Builtin); !isB {
					top = true
				}
			}
		}
	}
	return top
}

// sortCallNames: sort.Strings(x) and sort.Sort/Stable(T(x)) for a slice x permute
// the elements of x's backing array and nothing else (Less/Swap/Len of the
// package's slice types only read and swap elements). Returns the element heaps
// written, or nil when the call is not of that shape.
func sortCallNames(c *ssa.CallCommon) []string {
	callee := c.StaticCallee()
	if callee == nil || len(c.Args) != 1 {
		return nil
	}
	switch callee.String() {
	case "sort.Strings":
		return []string{"Elem#string[]"}
	case "sort.Sort", "sort.Stable":
		if mi, ok := c.Args[0].(*ssa.MakeInterface); ok {
			if st, ok := mi.X.Type().Underlying().(*types.Slice); ok && !hasArray(shapeOf(st.Elem())) {
				return leafNames(elemPath(st.Elem()), shapeOf(st.Elem()))
			}
		}
	}
	return nil
}

// implicitContracts: the zero-annotation sweep contract, generated on every run
// from the current tree for each named function or method that has no contract
// in /repo/verif_contracts*.go. Same defaults as tools/genast.py (ast.go,
// utils.go, sanitize.go: C13 safety + read-only frame) and a safety-only
// contract for the other files (C04).
func (w *World) implicitContracts() string {
	var b strings.Builder
	astFiles := map[string]bool{"ast.go": true, "utils.go": true, "sanitize.go": true}
	for _, fn := range w.allFuncs {
		if fn.Synthetic != "" || len(fn.Blocks) == 0 {
			continue
		}
		name := w.funcName(fn)
		if fn.Parent() != nil {
			// function literals of the AST files: their bodies run inside the generic walkers and
			// rewriters (which call them with non-nil nodes only); swept on their own, captured
			// variables arbitrary
			file := filepath.Base(w.fset.Position(fn.Pos()).Filename)
			if file == "parse_tree.go" || strings.HasPrefix(file, "verif_") || strings.HasSuffix(file, "_test.go") {
				continue // statement handlers: covered by the function-type contract
			}
			if _, ok := w.contracts.Funcs[name]; ok {
				continue
			}
			w.implicit = append(w.implicit, name)
			pr := "C04"
			if astFiles[file] {
				pr = "C13"
			}
			fmt.Fprintf(&b, "//@ func %s\n//@   props %s\n//@   safety %s\n//@   astparams\n", name, pr, pr)
			for _, p := range fn.Params {
				if _, isIface := p.Type().Underlying().(*types.Interface); isIface && p.Name() != "_" && p.Name() != "" {
					fmt.Fprintf(&b, "//@   requires %s != nil && (notnil(%s) || istype(%s, *Target))\n", p.Name(), p.Name(), p.Name())
				}
			}
			// captured pointer variables hold what the enclosing function put there: a non-nil node
			for _, fv := range fn.FreeVars {
				if pt, ok := fv.Type().(*types.Pointer); ok {
					if _, isPtr := pt.Elem().Underlying().(*types.Pointer); isPtr {
						fmt.Fprintf(&b, "//@   requires %s != nil\n", fv.Name())
					}
				}
			}
			continue
		}
		if strings.HasPrefix(name, "init") || strings.HasPrefix(name, "spec_") {
			continue
		}
		if _, ok := w.contracts.Funcs[name]; ok {
			continue
		}
		file := filepath.Base(w.fset.Position(fn.Pos()).Filename)
		if strings.HasPrefix(file, "verif_") || strings.HasSuffix(file, "_test.go") {
			continue
		}
		if fn.Name() == "node" || fn.Name() == "stmt" || fn.Name() == "expr" || fn.Name() == "literal" || fn.Name() == "source" {
			continue
		}
		w.implicit = append(w.implicit, name)
		fmt.Fprintf(&b, "//@ func %s\n", name)
		var reqs []string
		if recv := fn.Signature.Recv(); recv != nil {
			if _, isPtr := recv.Type().(*types.Pointer); isPtr && len(fn.Params) > 0 && fn.Params[0].Name() != "_" && fn.Params[0].Name() != "" {
				reqs = append(reqs, fn.Params[0].Name()+" != nil")
			}
		}
		if !ast.IsExported(fn.Name()) {
			start := 0
			if fn.Signature.Recv() != nil {
				start = 1
			}
			for _, p := range fn.Params[start:] {
				if pt, ok := p.Type().(*types.Pointer); ok {
					if nt, ok := pt.Elem().(*types.Named); ok && nt.Obj().Pkg() == w.pkg.Pkg {
						if _, isStruct := nt.Underlying().(*types.Struct); isStruct && p.Name() != "_" {
							reqs = append(reqs, p.Name()+" != nil")
						}
					}
				}
			}
		}
		if astFiles[file] {
			b.WriteString("//@   props C13\n//@   safety C13\n//@   astparams\n")
			if w.canInline(fn) {
				b.WriteString("//@   inline\n")
			}
			// a helper that writes nothing (computed write set empty) gets the read-only frame, so that an
			// extracted pure helper can be called from functions that may only write fresh memory
			if mi := w.modInfoOf(fn, map[*ssa.Function]bool{}); !mi.top && len(mi.dynParams) == 0 && len(mi.names) == 0 {
				b.WriteString("//@   modifies fresh\n//@   frameprops C14 C17\n")
			} else {
				b.WriteString("//@   modifies @ast\n//@   frameprops C14 C17\n")
			}
		} else {
			b.WriteString("//@   props C04\n//@   safety C04\n")
			if w.canInline(fn) {
				b.WriteString("//@   inline\n")
			}
		}
		for _, r := range reqs {
			fmt.Fprintf(&b, "//@   requires %s\n", r)
		}
	}
	return b.String()
}

// loopFrame: which heaps the body of a loop can only write at objects allocated
// after the loop was entered. For such a heap every object that existed at loop
// entry keeps its value across the loop-head havoc (except the backing arrays
// of the loop-carried local slices the body appends to, which are returned as
// head phis: the array they refer to at loop entry is excepted).
//
//   store through an Alloc made inside the loop                    fresh
//   store anywhere else                                            not fresh
//   append to a local slice carried by a head phi of this loop     fresh except that phi's entry array
//   any other append / copy / delete / map update                  not fresh
//   static callee with a verified contract: heap h is fresh iff the callee's
//     modifies clause allows h only through "fresh"
//   every other call (inlined, dynamic, closure, library)          not fresh for all it may write
func (w *World) loopFrame(fn *ssa.Function, li *loopInfo) map[string][]*ssa.Phi {
	cand := map[string][]*ssa.Phi{}
	unsafe := map[string]bool{}
	why := ""
	mark := func(names []string, ok bool, phi *ssa.Phi) {
		for _, n := range names {
			if !ok {
				if os.Getenv("GOVC_DEBUGLF") != "" && !unsafe[n] {
					fmt.Fprintf(os.Stderr, "  loop%d unsafe %s: %s\n", li.ordinal, n, why)
				}
				unsafe[n] = true
				continue
			}
			if _, have := cand[n]; !have {
				cand[n] = nil
			}
			if phi != nil {
				dup := false
				for _, p := range cand[n] {
					if p == phi {
						dup = true
					}
				}
				if !dup {
					cand[n] = append(cand[n], phi)
				}
			}
		}
	}
	allocInLoop := func(v ssa.Value) bool {
		for {
			switch x := v.(type) {
			case *ssa.Alloc:
				return li.blocks[x.Block()]
			case *ssa.FieldAddr:
				v = x.X
			case *ssa.IndexAddr:
				if _, isPtr := x.X.Type().Underlying().(*types.Pointer); isPtr {
					v = x.X
				} else if sl, ok := x.X.(*ssa.Slice); ok {
					v = sl.X
				} else {
					return false
				}
			default:
				return false
			}
		}
	}
	// headPhi: the head phi of this loop that a slice value derives from through
	// inner phis and appends (cycles through the value itself are ignored).
	inProgress := map[ssa.Value]bool{}
	cyc := &ssa.Phi{}
	var headPhi0 func(v ssa.Value) *ssa.Phi
	headPhi0 = func(v ssa.Value) *ssa.Phi {
		if inProgress[v] {
			return cyc
		}
		inProgress[v] = true
		defer delete(inProgress, v)
		switch x := v.(type) {
		case *ssa.Phi:
			if x.Block() == li.head {
				return x
			}
			if !li.blocks[x.Block()] {
				return nil
			}
			var res *ssa.Phi
			for _, e := range x.Edges {
				p := headPhi0(e)
				if p == cyc {
					continue
				}
				if p == nil || (res != nil && res != p) {
					return nil
				}
				res = p
			}
			return res
		case *ssa.Call:
			if b, ok := x.Common().Value.(*ssa.Builtin); ok && b.Name() == "append" && li.blocks[x.Block()] {
				return headPhi0(x.Common().Args[0])
			}
		case *ssa.ChangeType:
			return headPhi0(x.X)
		}
		return nil
	}
	headPhi := func(v ssa.Value, _ int) *ssa.Phi {
		p := headPhi0(v)
		if p == cyc {
			return nil
		}
		return p
	}
	for _, b := range fn.Blocks {
		if !li.blocks[b] {
			continue
		}
		for _, ins := range b.Instrs {
			why = ins.String()
			switch in := ins.(type) {
			case *ssa.Store:
				p, sh, ok := addrPath(in.Addr)
				if !ok {
					return nil
				}
				mark(leafNames(p, sh), allocInLoop(in.Addr), nil)
			case *ssa.MapUpdate:
				mt := in.Map.Type().Underlying().(*types.Map)
				mm, isMake := in.Map.(*ssa.MakeMap)
				ok := isMake && li.blocks[mm.Block()]
				names := []string{mapPath(mt) + "#has", mapPath(mt) + "#len"}
				for _, l := range leavesOf(shapeOf(mt.Elem())) {
					names = append(names, mapPath(mt)+"#val"+l.Path)
				}
				mark(names, ok, nil)
			case *ssa.Go, *ssa.Defer, *ssa.Send, *ssa.Select:
				return nil
			case ssa.CallInstruction:
				c := in.Common()
				if bi, ok := c.Value.(*ssa.Builtin); ok {
					switch bi.Name() {
					case "append", "copy":
						if st, ok := c.Args[0].Type().Underlying().(*types.Slice); ok {
							names := leafNames(elemPath(st.Elem()), shapeOf(st.Elem()))
							if bi.Name() == "append" && sliceIsLocal(c.Args[0], map[ssa.Value]bool{}) {
								if ph := headPhi(c.Args[0], 0); ph != nil {
									mark(names, true, ph)
									continue
								}
							}
							mark(names, false, nil)
						}
					case "delete":
						mt := c.Args[0].Type().Underlying().(*types.Map)
						mark([]string{mapPath(mt) + "#has", mapPath(mt) + "#len"}, false, nil)
					}
					continue
				}
				tmp := &modInfo{names: map[string]bool{}, dynParams: map[int]bool{}}
				w.calleeEffect(fn, c, tmp, map[*ssa.Function]bool{})
				if tmp.top || len(tmp.dynParams) > 0 {
					return nil
				}
				var fc *FuncContract
				if callee := c.StaticCallee(); callee != nil && !c.IsInvoke() && (callee.Pkg == w.pkg) {
					fc = w.contracts.Funcs[w.funcName(callee)]
					if fc != nil && (fc.Skip != "" || fc.Inline || !fc.HasModifies) {
						fc = nil
					}
				}
				for n := range tmp.names {
					ok := false
					if fc != nil {
						ok = !modifiesAllowsOld(fc, c.StaticCallee(), n)
					}
					mark([]string{n}, ok, nil)
				}
			}
		}
	}
	out := map[string][]*ssa.Phi{}
	for n, phis := range cand {
		if !unsafe[n] {
			out[n] = phis
		}
	}
	return out
}

// modifiesAllowsOld: does the modifies clause let the function write heap n at an
// object that existed before the call (anything but "fresh")?
func modifiesAllowsOld(fc *FuncContract, callee *ssa.Function, n string) bool {
	for _, m := range fc.Modifies {
		if m == "fresh" {
			continue
		}
		pre := strings.TrimSuffix(m, ".*")
		if strings.HasSuffix(m, ".*") {
			isParam := false
			for _, p := range callee.Params {
				if p.Name() == pre {
					isParam = true
					if pt, ok := p.Type().Underlying().(*types.Pointer); ok {
						tp := pathForType(pt.Elem())
						if n == tp || strings.HasPrefix(n, tp+".") {
							return true
						}
					}
				}
			}
			if isParam {
				continue
			}
		}
		if n == pre || strings.HasPrefix(n, pre+".") || strings.HasPrefix(n, pre+"[") || strings.HasPrefix(n, pre+"#") {
			return true
		}
	}
	return false
}

// namedPtrTag: the interface type tag of *T for a named struct T of the package (0 if unknown).
func (w *World) namedPtrTag(name string) int {
	o := w.pkg.Pkg.Scope().Lookup(name)
	if o == nil {
		return 0
	}
	tn, ok := o.(*types.TypeName)
	if !ok {
		return 0
	}
	return w.typeTag(types.NewPointer(tn.Type()))
}

// localsOf: the local variables a function declares, in source order, as
// "name|type" (parameters, results and struct fields excluded; function
// literals nested in it excluded).
func (w *World) localsOf(fn *ssa.Function) []string {
	syn := fn.Syntax()
	if syn == nil {
		return nil
	}
	var body *ast.BlockStmt
	switch x := syn.(type) {
	case *ast.FuncDecl:
		body = x.Body
	case *ast.FuncLit:
		body = x.Body
	}
	if body == nil {
		return nil
	}
	var out []string
	seen := map[types.Object]bool{}
	ast.Inspect(body, func(n ast.Node) bool {
		if _, isLit := n.(*ast.FuncLit); isLit {
			return false
		}
		if ts, isTS := n.(*ast.TypeSwitchStmt); isTS {
			if as, ok := ts.Assign.(*ast.AssignStmt); ok && len(as.Lhs) == 1 {
				if id, ok := as.Lhs[0].(*ast.Ident); ok && id.Name != "_" {
					out = append(out, id.Name+"|typeswitch")
				}
			}
			return true
		}
		id, ok := n.(*ast.Ident)
		if !ok {
			return true
		}
		obj := w.tpkg.TypesInfo.Defs[id]
		v, isVar := obj.(*types.Var)
		if !isVar || v.IsField() || seen[obj] || id.Name == "_" {
			return true
		}
		seen[obj] = true
		out = append(out, id.Name+"|"+strings.ReplaceAll(typeKey(v.Type()), " ", ""))
		return true
	})
	// variables bound by a type switch are implicit objects (one per clause): add them by name once
	return out
}

// renamedLocal: if the function still declares the same sequence of local
// variable types as in the snapshot and only names differ, the current name of
// the variable that was called `old` when the contracts were written.
func (w *World) renamedLocal(fn *ssa.Function, old string) string {
	snap := w.contracts.Locals[w.funcName(fn)]
	if len(snap) == 0 {
		return ""
	}
	cur := w.localsOf(fn)
	if len(cur) != len(snap) {
		return ""
	}
	res := ""
	for i := range snap {
		so := strings.SplitN(snap[i], "|", 2)
		co := strings.SplitN(cur[i], "|", 2)
		if len(so) != 2 || len(co) != 2 || so[1] != co[1] {
			return "" // a type changed: not a pure rename
		}
		if so[0] == old && co[0] != old && res == "" {
			res = co[0]
		}
	}
	return res
}

// uniqueInSnapshot: the snapshot of fn's locals has exactly one variable of this name.
func (w *World) uniqueInSnapshot(fn *ssa.Function, name string) bool {
	n := 0
	for _, s := range w.contracts.Locals[w.funcName(fn)] {
		if strings.HasPrefix(s, name+"|") {
			n++
		}
	}
	return n == 1
}

// snapshotNamesOf: the names the snapshot had for the local that is now called cur.
func (w *World) snapshotNamesOf(fn *ssa.Function, cur string) []string {
	snap := w.contracts.Locals[w.funcName(fn)]
	if len(snap) == 0 {
		return nil
	}
	now := w.localsOf(fn)
	if len(now) != len(snap) {
		return nil
	}
	var out []string
	for i := range snap {
		so := strings.SplitN(snap[i], "|", 2)
		co := strings.SplitN(now[i], "|", 2)
		if len(so) != 2 || len(co) != 2 || so[1] != co[1] {
			return nil
		}
		if co[0] == cur && so[0] != cur {
			out = append(out, so[0])
		}
	}
	return out
}
