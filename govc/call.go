package main

import (
	"fmt"
	"go/types"
	"sort"
	"strings"

	"golang.org/x/tools/go/ssa"
)

func (e *Enc) call(f *frame, st *State, in *ssa.Call) Val {
	c := in.Common()
	resShape := shapeOf(in.Type())
	var args []Val
	for _, a := range c.Args {
		args = append(args, e.value(f, a))
	}
	if c.IsInvoke() {
		recv := e.value(f, c.Value)
		return e.invoke(f, st, in, recv, args, resShape)
	}
	switch callee := c.Value.(type) {
	case *ssa.Builtin:
		return e.builtin(f, st, in, callee, args, resShape)
	case *ssa.Function:
		return e.staticCall(f, st, in, callee, args, nil, resShape)
	case *ssa.MakeClosure:
		fv := e.value(f, callee)
		return e.staticCall(f, st, in, fv.Fn.Fn, args, fv.Fn.Bindings, resShape)
	}
	fv := e.value(f, c.Value)
	if fv.Fn != nil {
		return e.staticCall(f, st, in, fv.Fn.Fn, args, fv.Fn.Bindings, resShape)
	}
	// dynamic call through a function value
	return e.dynamicCall(f, st, in, fv, args, resShape)
}

func (e *Enc) builtin(f *frame, st *State, in *ssa.Call, b *ssa.Builtin, args []Val, resShape *Shape) Val {
	switch b.Name() {
	case "len":
		v := args[0]
		switch v.Sh.K {
		case KSlice:
			return Val{Sh: resShape, T: v.Sub[2].T}
		case KStr:
			return Val{Sh: resShape, T: fmt.Sprintf("(slen %s)", v.T)}
		case KInt:
			if mt, ok := v.Sh.T.Underlying().(*types.Map); ok {
				return Val{Sh: resShape, T: e.mapLen(st, v.T, mt)}
			}
			if pt, ok := v.Sh.T.Underlying().(*types.Pointer); ok {
				if at, ok := pt.Elem().Underlying().(*types.Array); ok {
					return Val{Sh: resShape, T: fmt.Sprintf("%d", at.Len())}
				}
			}
		}
	case "cap":
		if args[0].Sh.K == KSlice {
			return Val{Sh: resShape, T: args[0].Sub[3].T}
		}
	case "append":
		return e.appendCall(f, st, in, args, resShape)
	case "copy":
		return e.copyCall(f, st, in, args, resShape)
	case "delete":
		mt := args[0].Sh.T.Underlying().(*types.Map)
		if e.fc != nil && e.fc.HasModifies && e.noObl == 0 {
			e.frameCheckBase(f, st, args[0].T, mapPath(mt), in, "false")
		}
		e.mapDelete(st, args[0].T, mt, args[1])
		return Val{Sh: resShape}
	case "print", "println":
		return Val{Sh: resShape}
	case "min", "max":
		if args[0].Sh.K == KInt && len(args) == 2 {
			op := "<="
			if b.Name() == "max" {
				op = ">="
			}
			return Val{Sh: resShape, T: fmt.Sprintf("(ite (%s %s %s) %s %s)", op, args[0].T, args[1].T, args[0].T, args[1].T)}
		}
	}
	panic(unsupported("builtin " + b.Name()))
}

func (e *Enc) appendCall(f *frame, st *State, in *ssa.Call, args []Val, resShape *Shape) Val {
	s, t := args[0], args[1]
	elT := resShape.T.Underlying().(*types.Slice).Elem()
	elSh := shapeOf(elT)
	if t.Sh.K == KStr {
		panic(unsupported("append([]byte, string...)"))
	}
	// result: either in place (capacity suffices) or a fresh backing array; both
	// cases are covered by choosing the base nondeterministically under the
	// capacity condition.
	newLen := e.define("alen", "Int", fmt.Sprintf("(+ %s %s)", s.Sub[2].T, t.Sub[2].T))
	fits := e.define("afits", "Bool", fmt.Sprintf("(and (not (= %s 0)) (<= %s %s))", s.Sub[0].T, newLen, s.Sub[3].T))
	fresh := e.alloc(st)
	base := e.define("abase", "Int", fmt.Sprintf("(ite %s %s %s)", fits, s.Sub[0].T, fresh))
	off := e.define("aoff", "Int", fmt.Sprintf("(ite %s %s 0)", fits, s.Sub[1].T))
	capN := e.fresh("acap", "Int")
	e.assume(fmt.Sprintf("(and (>= %s %s) (=> %s (= %s %s)))", capN, newLen, fits, capN, s.Sub[3].T))
	// element arrays: for every leaf, new row = old row of chosen base with the
	// first len(s) elements copied (fresh case) and the appended ones written.
	ls := leavesOf(elSh)
	p := elemPath(elT)
	// number of appended elements is symbolic in general; SSA gives a slice t.
	// Common cases: t is a 1-element literal slice (append(s, x)) or arbitrary.
	for _, l := range ls {
		h := e.heap(st, p+l.Path, l.K)
		rowOld := fmt.Sprintf("(select %s %s)", h.Term, s.Sub[0].T)
		e.frameLemmas(h, s.Sub[0].T, map[*Heap]bool{})
		rowSrc := fmt.Sprintf("(select %s %s)", h.Term, t.Sub[0].T)
		e.frameLemmas(h, t.Sub[0].T, map[*Heap]bool{})
		nrow := e.fresh("arow_"+sanitize(l.Path), "(Array Int "+l.K.Sort()+")")
		// appended elements of a constant-length argument are stated directly; everything else
		// (copied prefix, symbolic-length argument, untouched cells when appending in place) is
		// available through explicit instantiation at the index terms that occur (see below).
		if n, ok := constLen(t); ok {
			for k := 0; k < n; k++ {
				e.assume(fmt.Sprintf("(= (select %s (+ %s %s %d)) (select %s (+ %s %d)))", nrow, off, s.Sub[2].T, k, rowSrc, t.Sub[1].T, k))
			}
		}
		if keepQuantifiers {
			e.assume(fmt.Sprintf("(forall ((j Int)) (! (=> (and (<= %s j) (< j (+ %s %s))) (= (select %s j) (select %s (+ %s (- j %s))))) :pattern ((select %s j))))",
				off, off, s.Sub[2].T, nrow, rowOld, s.Sub[1].T, off, nrow))
			e.assume(fmt.Sprintf("(=> %s (forall ((j Int)) (! (=> (or (< j (+ %s %s)) (>= j (+ %s %s))) (= (select %s j) (select %s j))) :pattern ((select %s j)))))",
				fits, off, s.Sub[2].T, off, newLen, nrow, rowOld, nrow))
		}
		// explicit instantiation: element t of the result slice
		{
			nrowC, offC, rowOldC, rowSrcC, fitsC := nrow, off, rowOld, rowSrc, fits
			sOff, sLen, tOff, nl := s.Sub[1].T, s.Sub[2].T, t.Sub[1].T, newLen
			e.ctr["qf"]++
			qf := &quantFact{id: e.ctr["qf"], reach: e.curReach, elems: map[string]bool{p: true}}
			qf.inst = func(x string) string {
				return and(
					fmt.Sprintf("(=> (and (<= 0 %s) (< %s %s)) (= (select %s (+ %s %s)) (select %s (+ %s %s))))", x, x, sLen, nrowC, offC, x, rowOldC, sOff, x),
					fmt.Sprintf("(=> (and (<= %s %s) (< %s %s)) (= (select %s (+ %s %s)) (select %s (+ %s (- %s %s)))))", sLen, x, x, nl, nrowC, offC, x, rowSrcC, tOff, x, sLen),
					fmt.Sprintf("(=> (and %s (or (< %s 0) (>= %s %s))) (= (select %s (+ %s %s)) (select %s (+ %s %s))))", fitsC, x, x, nl, nrowC, offC, x, rowOldC, offC, x))
			}
			e.quantFacts = append(e.quantFacts, qf)
		}
		nh := &Heap{Name: h.Name, Sort: h.Sort, Indexed: true, Prev: h}
		nh.Term = e.define("H_"+sanitize(h.Name), h.Sort, fmt.Sprintf("(store %s %s %s)", h.Term, base, nrow))
		st.heaps[h.Name] = nh
	}
	// frame: writing in place into a non-fresh backing array is a write
	if e.fc != nil && e.fc.HasModifies && e.noObl == 0 {
		e.frameCheckBase(f, st, base, p, in, fmt.Sprintf("(or (not %s) (= %s 0))", fits, t.Sub[2].T))
	}
	return Val{Sh: resShape, Sub: []Val{intVal(base), intVal(off), intVal(newLen), intVal(capN)}}
}

func constLen(v Val) (int, bool) {
	var n int
	if _, err := fmt.Sscanf(v.Sub[2].T, "%d", &n); err == nil && fmt.Sprintf("%d", n) == v.Sub[2].T {
		return n, true
	}
	// (- hi lo) with constants
	var hi, lo int
	if _, err := fmt.Sscanf(v.Sub[2].T, "(- %d %d)", &hi, &lo); err == nil {
		return hi - lo, true
	}
	return 0, false
}

func (e *Enc) copyCall(f *frame, st *State, in *ssa.Call, args []Val, resShape *Shape) Val {
	dst, src := args[0], args[1]
	if src.Sh.K == KStr {
		panic(unsupported("copy from string"))
	}
	elT := dst.Sh.T.Underlying().(*types.Slice).Elem()
	n := e.define("cpn", "Int", fmt.Sprintf("(ite (<= %s %s) %s %s)", dst.Sub[2].T, src.Sub[2].T, dst.Sub[2].T, src.Sub[2].T))
	p := elemPath(elT)
	for _, l := range leavesOf(shapeOf(elT)) {
		h := e.heap(st, p+l.Path, l.K)
		rowDst := fmt.Sprintf("(select %s %s)", h.Term, dst.Sub[0].T)
		rowSrc := fmt.Sprintf("(select %s %s)", h.Term, src.Sub[0].T)
		e.frameLemmas(h, dst.Sub[0].T, map[*Heap]bool{})
		e.frameLemmas(h, src.Sub[0].T, map[*Heap]bool{})
		nrow := e.fresh("crow_"+sanitize(l.Path), "(Array Int "+l.K.Sort()+")")
		e.assume(fmt.Sprintf("(forall ((k Int)) (! (= (select %s k) (ite (and (<= %s k) (< k (+ %s %s))) (select %s (+ (- k %s) %s)) (select %s k))) :pattern ((select %s k))))",
			nrow, dst.Sub[1].T, dst.Sub[1].T, n, rowSrc, dst.Sub[1].T, src.Sub[1].T, rowDst, nrow))
		nh := &Heap{Name: h.Name, Sort: h.Sort, Indexed: true, Prev: h}
		nh.Term = e.define("H_"+sanitize(h.Name), h.Sort, fmt.Sprintf("(store %s %s %s)", h.Term, dst.Sub[0].T, nrow))
		st.heaps[h.Name] = nh
	}
	if e.fc != nil && e.fc.HasModifies && e.noObl == 0 {
		e.frameCheckBase(f, st, dst.Sub[0].T, p, in, fmt.Sprintf("(= %s 0)", n))
	}
	return Val{Sh: resShape, T: n}
}

// ---------------------------------------------------------------------------
// frames

// frameCheck generates the frame obligation for a store to loc.
func (e *Enc) frameCheck(f *frame, st *State, loc *Loc, in ssa.Instruction) {
	if e.fc == nil || !e.fc.HasModifies || e.noObl > 0 {
		return
	}
	e.frameCheckBase(f, st, loc.Base, loc.Path, in, "false")
}

func (e *Enc) frameCheckBase(f *frame, st *State, base, path string, in ssa.Instruction, orCond string) {
	allowed := []string{orCond}
	for _, m := range e.fc.Modifies {
		switch {
		case m == "fresh":
			allowed = append(allowed, fmt.Sprintf("(>= %s %s)", base, e.nextEntry))
		case strings.HasSuffix(m, ".*"):
			pre := strings.TrimSuffix(m, ".*")
			// parameter object or type-level
			if pv, ok := e.paramByName(pre); ok {
				if pt, ok := pv.Sh.T.Underlying().(*types.Pointer); ok && (path == pathForType(pt.Elem()) || strings.HasPrefix(path, pathForType(pt.Elem())+".")) {
					allowed = append(allowed, fmt.Sprintf("(= %s %s)", base, pv.T))
				}
			} else if path == pre || strings.HasPrefix(path, pre+".") || strings.HasPrefix(path, pre+"[") {
				allowed = append(allowed, "true")
			}
		default:
			if path == m || strings.HasPrefix(path, m+".") || strings.HasPrefix(path, m+"[") || strings.HasPrefix(path, m+"#") {
				allowed = append(allowed, "true")
			}
		}
	}
	e.oblige("frame", e.site(in), in.Pos(), or(allowed...), e.frameProps(), "modifies "+strings.Join(e.fc.Modifies, ", "))
}

func (e *Enc) frameProps() []string {
	if e.fc.FrameProps != nil {
		return e.fc.FrameProps
	}
	return e.fc.Props
}

func (e *Enc) paramByName(name string) (Val, bool) {
	if e.topFrame == nil {
		return Val{}, false
	}
	for i, p := range e.topFrame.fn.Params {
		if p.Name() == name {
			return e.topFrame.params[i], true
		}
	}
	return Val{}, false
}

// ---------------------------------------------------------------------------
// calls to functions of the package

func (e *Enc) staticCall(f *frame, st *State, in *ssa.Call, callee *ssa.Function, args []Val, bindings []Val, resShape *Shape) Val {
	if callee.Pkg == nil || callee.Pkg.Pkg.Path() != repoPkgPath {
		if callee.Synthetic != "" && strings.Contains(callee.Synthetic, "bound method wrapper") {
			// p.s.Scan as a value: call the underlying method with the bound receiver
			m := e.w.prog.FuncValue(callee.Object().(*types.Func))
			if m != nil {
				return e.staticCall(f, st, in, m, append(append([]Val{}, bindings...), args...), nil, resShape)
			}
		}
		return e.libCall(f, st, in, callee, args, resShape)
	}
	if callee.Synthetic != "" && strings.Contains(callee.Synthetic, "bound method wrapper") {
		if fo, ok := callee.Object().(*types.Func); ok {
			if m := e.w.prog.FuncValue(fo); m != nil {
				return e.staticCall(f, st, in, m, append(append([]Val{}, bindings...), args...), nil, resShape)
			}
		}
	}
	all := append(append([]Val{}, args...), bindings...)
	name := e.w.funcName(callee)
	fc := e.w.contracts.Funcs[name]
	if fc != nil && fc.Skip != "" {
		fc = nil
	}
	if fc != nil && !fc.Inline {
		return e.contractCall(f, st, in, callee, fc, args, resShape)
	}
	if ((fc != nil && fc.Inline) || e.w.canInline(callee)) && e.depth < 8 {
		return e.inlineCall(f, st, in, callee, all, resShape)
	}
	// no contract: havoc result and the callee's type-level mod-set
	mods, top := e.w.modSetOf(callee, in.Common(), in.Parent())
	if top {
		e.noteHavoc("call " + name + " (may write anything)")
	} else {
		e.noteHavoc("call " + name)
	}
	if e.fc != nil && e.fc.HasModifies && e.noObl == 0 {
		if bad := e.notAllowedNames(mods, top); len(bad) > 0 {
			e.oblige("frame", "call:"+name+"@"+e.site(in), in.Pos(), "false", e.frameProps(), "callee may write "+strings.Join(bad, ","))
		}
	}
	preH := st.clone()
	e.havocHeaps(st, mods, top, "", false)
	e.preserveLocals(f, in, preH, st)
	e.havocGhosts(st, mods, top)
	nn := e.fresh("next", "Int")
	e.assume(fmt.Sprintf("(>= %s %s)", nn, st.next))
	st.next = nn
	res := e.freshVal(resShape, f.prefix+in.Name())
	e.assumeLoaded(st, res)
	return res
}

func (e *Enc) havocGhosts(st *State, mods map[string]bool, top bool) {
	for g, gd := range e.w.ghostDecls {
		if top || mods["ghost:"+g] {
			st.ghosts[g] = Val{Sh: gd.Sh, T: e.fresh("g_"+sanitize(g), gd.Sort)}
		}
	}
	if e.trackOvf && (top || mods["ghost:ovf"]) {
		// callee arithmetic is not part of this function's overflow claim
	}
}

func (e *Enc) noteHavoc(what string) {
	e.havocSites++
	if len(e.havocNotes) < 40 {
		e.havocNotes = append(e.havocNotes, what)
	}
}

func (e *Enc) inlineCall(f *frame, st *State, in *ssa.Call, callee *ssa.Function, args []Val, resShape *Shape) Val {
	e.depth++
	defer func() { e.depth-- }()
	saveReach, saveState := e.curReach, e.curState
	nf := e.newFrame(callee, false)
	// free variables are appended after params
	if len(callee.FreeVars) > 0 {
		for i, fv := range callee.FreeVars {
			nf.vals[fv] = args[len(callee.Params)+i]
		}
	}
	e.run(nf, args[:len(callee.Params)], st, saveReach)
	e.curReach, e.curState = saveReach, saveState
	if len(nf.rets) == 0 {
		// callee always panics
		e.assume("false")
		return e.freshVal(resShape, f.prefix+in.Name())
	}
	var conds []string
	var sts []*State
	for _, r := range nf.rets {
		conds = append(conds, r.reach)
		sts = append(sts, r.st)
	}
	merged := e.mergeStates(conds, sts)
	*st = *merged
	// callee may not return on some paths (panic obligations cover them)
	e.assume(or(conds...))
	mk := func(rs retSite) Val {
		if resShape.K == KTuple {
			if len(rs.vals) == 0 {
				return Val{Sh: resShape}
			}
			return Val{Sh: resShape, Sub: rs.vals}
		}
		return rs.vals[0]
	}
	out := mk(nf.rets[len(nf.rets)-1])
	for i := len(nf.rets) - 2; i >= 0; i-- {
		out = e.iteVal(nf.rets[i].reach, mk(nf.rets[i]), out)
	}
	if resShape.K == KTuple && len(resShape.Sub) == 0 {
		return Val{Sh: resShape}
	}
	return e.nameVal(out, f.prefix+in.Name())
}

// contractCall: assert pre, havoc modifies, assume post.
func (e *Enc) contractCall(f *frame, st *State, in *ssa.Call, callee *ssa.Function, fc *FuncContract, args []Val, resShape *Shape) Val {
	name := e.w.funcName(callee)
	env := &SpecEnv{vars: map[string]Val{}, st: st, fc: fc}
	for i, p := range callee.Params {
		env.vars[p.Name()] = args[i]
	}
	for k, c := range fc.Requires {
		goal := e.safeEvalGoal(c, env)
		e.oblige("pre", fmt.Sprintf("%s/requires%d@%s", name, k+1, e.site(in)), in.Pos(), goal, e.callProps(c), c.Text)
	}
	pre := st.clone()
	nextAtCall := st.next
	// the callee's entry-state lets, evaluated on the actual arguments
	calleeLets := map[string]Val{}
	for _, el := range fc.EntryLets {
		ex, err := parseSpec(el[1])
		if err != nil {
			panic(contractErr{fmt.Sprintf("%s: entrylet %s: %v", name, el[0], err)})
		}
		lenv := &SpecEnv{vars: map[string]Val{}, st: st.clone(), fc: fc}
		for i, p := range callee.Params {
			lenv.vars[p.Name()] = args[i]
		}
		for k, v := range calleeLets {
			lenv.vars[k] = v
		}
		func() {
			defer func() {
				if r := recover(); r != nil {
					if se, ok := r.(specErr); ok {
						panic(contractErr{fmt.Sprintf("%s: entrylet %s: %s", name, el[0], se.msg)})
					}
					panic(r)
				}
			}()
			calleeLets[el[0]] = e.evalSpec(ex, lenv)
		}()
	}
	// modifies
	if fc.HasModifies {
		// caller-side frame obligation: what the callee may write must be allowed here too
		e.calleeFrame(f, st, in, callee, fc, args)
		mods, _ := e.w.modSetOf(callee, in.Common(), in.Parent())
		e.applyModifies(st, fc, callee, args, mods, nextAtCall)
		e.preserveLocals(f, in, pre, st)
	} else {
		mods, top := e.w.modSetOf(callee, in.Common(), in.Parent())
		e.havocHeaps(st, mods, top, "", false)
		e.preserveLocals(f, in, pre, st)
		e.havocGhosts(st, mods, top)
		if e.fc != nil && e.fc.HasModifies && e.noObl == 0 {
			if bad := e.notAllowedNames(mods, top); len(bad) > 0 {
				e.oblige("frame", "call:"+name+"@"+e.site(in), in.Pos(), "false", e.frameProps(), "callee without modifies clause may write "+strings.Join(bad, ","))
			}
		}
	}
	nn := e.fresh("next", "Int")
	e.assume(fmt.Sprintf("(>= %s %s)", nn, st.next))
	st.next = nn
	res := e.freshVal(resShape, f.prefix+in.Name())
	e.assumeLoaded(st, res)
	// post
	penv := &SpecEnv{vars: map[string]Val{}, st: st, old: pre, fc: fc}
	for i, p := range callee.Params {
		penv.vars[p.Name()] = args[i]
	}
	for k, v := range calleeLets {
		penv.vars[k] = v
	}
	names := resultNames(callee)
	for i, n := range names {
		var rv Val
		if resShape.K == KTuple {
			rv = res.Sub[i]
		} else {
			rv = res
		}
		penv.vars[n] = rv
		if len(names) == 1 {
			penv.vars["result"] = rv
		}
	}
	// calls the callee makes through its function-typed parameters: results exist, values unknown
	if len(fc.FnParams) > 0 {
		if e.dynResults == nil {
			e.dynResults = map[string]Val{}
		}
		for i, p := range callee.Params {
			if _, ok := fc.FnParams[p.Name()]; ok {
				if sig, ok := p.Type().Underlying().(*types.Signature); ok {
					_ = i
					e.dynResults[p.Name()] = e.freshVal(shapeOf(sig.Results()), "dyn_"+sanitize(p.Name()))
				}
			}
		}
	}
	// fresh() inside a callee's post-condition means: allocated during the call
	saveNE := e.nextEntry
	e.nextEntry = nextAtCall
	for _, c := range fc.Ensures {
		e.assume(e.callSiteHyp(c, penv))
	}
	e.nextEntry = saveNE
	e.usedContracts[name] = true
	return res
}

func (e *Enc) callProps(c *Clause) []string {
	// a failed pre-condition belongs to the properties of the calling function
	// that also own the callee clause
	if e.fc == nil {
		return c.Props
	}
	var out []string
	for _, p := range c.Props {
		if hasProp(e.fc.Props, p) {
			out = append(out, p)
		}
	}
	if len(out) == 0 {
		if len(c.Props) > 0 {
			return c.Props
		}
		return e.fc.Props
	}
	return out
}

func heapNames(m map[string]bool) []string {
	var out []string
	for k := range m {
		if !strings.HasPrefix(k, "ghost:") && !strings.HasPrefix(k, "$") {
			out = append(out, k)
		}
	}
	sort.Strings(out)
	return out
}

// applyModifies havocs what a callee's modifies clause allows, keeping
// everything else: heaps it never names stay identical; heaps it may write
// only on fresh objects or on named parameter objects get a frame link.
func (e *Enc) applyModifies(st *State, fc *FuncContract, callee *ssa.Function, args []Val, mods map[string]bool, nextAtCall string) {
	names := heapNames(mods)
	for _, n := range names {
		old, ok := st.heaps[n]
		if !ok {
			// not used yet in this function: decide framing when first used
			old = nil
		}
		typeLevel := false
		var except []string
		for _, m := range fc.Modifies {
			switch {
			case m == "fresh":
			case strings.HasSuffix(m, ".*"):
				pre := strings.TrimSuffix(m, ".*")
				isParam := false
				for i, p := range callee.Params {
					if p.Name() == pre {
						isParam = true
						if pt, ok := p.Type().Underlying().(*types.Pointer); ok {
							tp := pathForType(pt.Elem())
							if n == tp || strings.HasPrefix(n, tp+".") {
								except = append(except, args[i].T)
							}
						}
					}
				}
				if !isParam && (n == pre || strings.HasPrefix(n, pre+".") || strings.HasPrefix(n, pre+"[")) {
					typeLevel = true
				}
			default:
				if n == m || strings.HasPrefix(n, m+".") || strings.HasPrefix(n, m+"[") || strings.HasPrefix(n, m+"#") {
					typeLevel = true
				}
			}
		}
		if old == nil {
			st.markDirty(n, newDirty(!typeLevel && len(except) == 0, nextAtCall))
			continue
		}
		nh := e.newHeapVersion(old, "c")
		if !typeLevel {
			nh.Prev, nh.Bound, nh.Except, nh.IsFrm = old, nextAtCall, except, true
		}
		st.heaps[n] = nh
	}
	e.havocGhosts(st, mods, false)
}

// calleeFrame: the caller's own modifies clause must cover the callee's.
func (e *Enc) calleeFrame(f *frame, st *State, in *ssa.Call, callee *ssa.Function, fc *FuncContract, args []Val) {
	if e.fc == nil || !e.fc.HasModifies || e.noObl > 0 {
		return
	}
	for _, m := range fc.Modifies {
		switch {
		case m == "fresh":
			// objects fresh in the callee are fresh here
		case strings.HasSuffix(m, ".*"):
			pre := strings.TrimSuffix(m, ".*")
			isParam := false
			for i, p := range callee.Params {
				if p.Name() == pre {
					isParam = true
					if pt, ok := p.Type().Underlying().(*types.Pointer); ok {
						e.frameCheckBase(f, st, args[i].T, pathForType(pt.Elem()), in, "false")
					}
				}
			}
			if !isParam {
				e.frameCheckBase(f, st, "(- 1)", pre, in, "false")
			}
		default:
			e.frameCheckBase(f, st, "(- 1)", m, in, "false")
		}
	}
}

// fnTypeCall: a call through a function value whose signature has a declared contract.
func (e *Enc) fnTypeCall(f *frame, st *State, in *ssa.Call, fc *FuncContract, fv Val, args []Val, resShape *Shape) Val {
	env := &SpecEnv{vars: map[string]Val{}, st: st, fc: fc}
	for i, n := range fc.ParamNames {
		if i < len(args) {
			env.vars[n] = args[i]
		}
	}
	e.oblige("nil", e.site(in), in.Pos(), fmt.Sprintf("(not (= %s 0))", fv.T), e.safetyProps(), "")
	for k, c := range fc.Requires {
		goal := e.safeEvalGoal(c, env)
		e.oblige("pre", fmt.Sprintf("%s/requires%d@%s", fc.Name, k+1, e.site(in)), in.Pos(), goal, e.callProps(c), c.Text)
	}
	pre := st.clone()
	mods := map[string]bool{}
	top := false
	for _, cand := range e.w.fnValuesOfType(fc.FnType) {
		m, t := e.w.modSetOf(cand, nil, nil)
		for k := range m {
			mods[k] = true
		}
		top = top || t
	}
	e.havocHeaps(st, mods, top, "", false)
	e.preserveLocals(f, in, pre, st)
	e.havocGhosts(st, mods, top)
	nn := e.fresh("next", "Int")
	e.assume(fmt.Sprintf("(>= %s %s)", nn, st.next))
	st.next = nn
	res := e.freshVal(resShape, f.prefix+in.Name())
	e.assumeLoaded(st, res)
	penv := &SpecEnv{vars: map[string]Val{}, st: st, old: pre, fc: fc}
	for i, n := range fc.ParamNames {
		if i < len(args) {
			penv.vars[n] = args[i]
		}
	}
	if resShape.K == KTuple {
		for i := range res.Sub {
			penv.vars[fmt.Sprintf("result%d", i)] = res.Sub[i]
		}
	} else {
		penv.vars["result"] = res
		penv.vars["result0"] = res
	}
	for _, c := range fc.Ensures {
		e.assume(e.callSiteHyp(c, penv))
	}
	e.usedContracts[fc.Name] = true
	return res
}

func (e *Enc) dynamicCall(f *frame, st *State, in *ssa.Call, fv Val, args []Val, resShape *Shape) Val {
	if ftc := e.w.fnTypeContract(in.Common().Value.Type()); ftc != nil {
		if _, isParam := in.Common().Value.(*ssa.Parameter); !isParam || e.fc == nil || e.fc.FnParams[in.Common().Value.Name()] == nil {
			return e.fnTypeCall(f, st, in, ftc, fv, args, resShape)
		}
	}
	// contract attached to a function-typed parameter: "fnparam <name> modifies ..."
	name := in.Common().Value.Name()
	if p, ok := in.Common().Value.(*ssa.Parameter); ok {
		name = p.Name()
	}
	var mods map[string]bool
	top := true
	if e.fc != nil {
		if ms, ok := e.fc.FnParams[name]; ok {
			mods, top = map[string]bool{}, false
			for _, m := range ms {
				for _, h := range e.w.expandHeapPattern(m) {
					mods[h] = true
				}
			}
		}
	}
	if top {
		e.noteHavoc("dynamic call " + name)
	}
	preH := st.clone()
	e.havocHeaps(st, mods, top, "", false)
	e.preserveLocals(f, in, preH, st)
	e.havocGhosts(st, mods, top)
	if top && e.fc != nil && e.fc.HasModifies && e.noObl == 0 {
		e.oblige("frame", "dyncall@"+e.site(in), in.Pos(), "false", e.frameProps(), "dynamic call may write anything")
	}
	nn := e.fresh("next", "Int")
	e.assume(fmt.Sprintf("(>= %s %s)", nn, st.next))
	st.next = nn
	res := e.freshVal(resShape, f.prefix+in.Name())
	e.assumeLoaded(st, res)
	if e.dynResults == nil {
		e.dynResults = map[string]Val{}
	}
	e.dynResults[name] = res
	return res
}

// invoke: interface method call.
func (e *Enc) invoke(f *frame, st *State, in *ssa.Call, recv Val, args []Val, resShape *Shape) Val {
	c := in.Common()
	e.oblige("nil", e.site(in), in.Pos(), fmt.Sprintf("(not (= %s 0))", recv.Sub[0].T), e.safetyProps(), "")
	iface := c.Value.Type()
	key := typeKey(iface) + "." + c.Method.Name()
	byType, top := e.w.invokeModsByType(c)
	mods := map[string]bool{}
	for _, ns := range byType {
		for n := range ns {
			mods[n] = true
		}
	}
	if lc, ok := libInvoke[key]; ok {
		// in-package implementations may also write their own fields; the ghost
		// cursors of distinct stream objects are independent (assumption)
		pre := st.clone()
		e.implPre(f, st, in, recv, args)
		e.havocByType(st, recv.Sub[0].T, byType, map[string]bool{"Lib#rscur": true})
		res := lc(e, f, st, in, recv, args, resShape)
		e.implPost(f, st, pre, in, recv, args, res, resShape)
		return res
	}
	if !top {
		// only the implementation selected by the dynamic type runs; implementers whose contract is
		// total (no requires clause) give their post-condition to the caller
		pre := st.clone()
		e.havocByType(st, recv.Sub[0].T, byType, nil)
		e.havocGhosts(st, mods, false)
		if e.fc != nil && e.fc.HasModifies && e.noObl == 0 {
			if bad := e.notAllowedNames(mods, false); len(bad) > 0 {
				e.oblige("frame", "invoke:"+key+"@"+e.site(in), in.Pos(), "false", e.frameProps(), "interface method may write "+strings.Join(bad, ","))
			}
		}
		nn := e.fresh("next", "Int")
		e.assume(fmt.Sprintf("(>= %s %s)", nn, st.next))
		st.next = nn
		res := e.freshVal(resShape, f.prefix+in.Name())
		e.assumeLoaded(st, res)
		e.totalOnly = true
		e.implPost(f, st, pre, in, recv, args, res, resShape)
		e.totalOnly = false
		return res
	}
	if top {
		e.noteHavoc("invoke " + key)
	}
	preH := st.clone()
	e.havocHeaps(st, mods, top, "", false)
	e.preserveLocals(f, in, preH, st)
	e.havocGhosts(st, mods, top)
	if e.fc != nil && e.fc.HasModifies && e.noObl == 0 {
		if bad := e.notAllowedNames(mods, top); len(bad) > 0 {
			e.oblige("frame", "invoke:"+key+"@"+e.site(in), in.Pos(), "false", e.frameProps(), "interface method may write "+strings.Join(bad, ","))
		}
	}
	nn := e.fresh("next", "Int")
	e.assume(fmt.Sprintf("(>= %s %s)", nn, st.next))
	st.next = nn
	res := e.freshVal(resShape, f.prefix+in.Name())
	e.assumeLoaded(st, res)
	return res
}

// havocByType: heap h is replaced by a version that equals the old one unless
// the dynamic type of the receiver is one whose implementation may write h.
func (e *Enc) havocByType(st *State, typT string, byType map[int]map[string]bool, skip map[string]bool) {
	conds := map[string][]string{}
	for tag, names := range byType {
		for n := range names {
			if skip[n] || strings.HasPrefix(n, "ghost:") {
				continue
			}
			conds[n] = append(conds[n], fmt.Sprintf("(= %s %d)", typT, tag))
		}
	}
	var names []string
	for n := range conds {
		names = append(names, n)
	}
	sort.Strings(names)
	for _, n := range names {
		old, ok := st.heaps[n]
		if !ok {
			srt, known := heapSorts[n]
			if !known {
				st.markDirty(n, newDirty(false, ""))
				continue
			}
			old = e.heapS(st, n, srt, strings.Contains(n, "[]"))
		}
		sort.Strings(conds[n])
		nh := e.newHeapVersion(old, "v")
		nh.Ins = []*Heap{old}
		e.assert(fmt.Sprintf("(=> (not %s) (= %s %s))", or(conds[n]...), nh.Term, old.Term))
		st.heaps[n] = nh
	}
}

// implementers with a contract: dynamic dispatch is modular. If the dynamic
// type of the receiver is T, T's method pre-condition must hold (obligation)
// and its post-condition may be assumed.
func (e *Enc) implContracts(in *ssa.Call) []struct {
	tag int
	fn  *ssa.Function
	fc  *FuncContract
	t   types.Type
} {
	var out []struct {
		tag int
		fn  *ssa.Function
		fc  *FuncContract
		t   types.Type
	}
	c := in.Common()
	it, ok := c.Value.Type().Underlying().(*types.Interface)
	if !ok {
		return nil
	}
	scope := e.w.pkg.Pkg.Scope()
	for _, n := range scope.Names() {
		tn, ok := scope.Lookup(n).(*types.TypeName)
		if !ok {
			continue
		}
		for _, t := range []types.Type{tn.Type(), types.NewPointer(tn.Type())} {
			if _, isI := t.Underlying().(*types.Interface); isI || !types.Implements(t, it) {
				continue
			}
			sel := e.w.prog.MethodSets.MethodSet(t).Lookup(c.Method.Pkg(), c.Method.Name())
			if sel == nil {
				continue
			}
			m := e.w.prog.MethodValue(sel)
			if m == nil {
				continue
			}
			if fc := e.w.contracts.Funcs[e.w.funcName(m)]; fc != nil && fc.Skip == "" {
				out = append(out, struct {
					tag int
					fn  *ssa.Function
					fc  *FuncContract
					t   types.Type
				}{e.w.typeTag(t), m, fc, t})
			}
		}
	}
	return out
}

func (e *Enc) implPre(f *frame, st *State, in *ssa.Call, recv Val, args []Val) {
	for _, ic := range e.implContracts(in) {
		env := &SpecEnv{vars: map[string]Val{}, st: st, fc: ic.fc}
		all := append([]Val{e.unbox(recv, ic.t)}, args...)
		for i, p := range ic.fn.Params {
			if i < len(all) {
				env.vars[p.Name()] = all[i]
			}
		}
		isT := fmt.Sprintf("(= %s %d)", recv.Sub[0].T, ic.tag)
		for k, c := range ic.fc.Requires {
			goal := implies(isT, e.safeEvalGoal(c, env))
			e.oblige("pre", fmt.Sprintf("%s/requires%d@%s", e.w.funcName(ic.fn), k+1, e.site(in)), in.Pos(), goal, e.callProps(c), c.Text)
		}
	}
}

func (e *Enc) implPost(f *frame, st, pre *State, in *ssa.Call, recv Val, args []Val, res Val, resShape *Shape) {
	for _, ic := range e.implContracts(in) {
		if e.totalOnly && (len(ic.fc.Requires) > 0 || ic.fc.ASTParams) {
			continue
		}
		penv := &SpecEnv{vars: map[string]Val{}, st: st, old: pre, fc: ic.fc}
		all := append([]Val{e.unbox(recv, ic.t)}, args...)
		for i, p := range ic.fn.Params {
			if i < len(all) {
				penv.vars[p.Name()] = all[i]
			}
		}
		names := resultNames(ic.fn)
		for i, n := range names {
			var rv Val
			if resShape.K == KTuple {
				rv = res.Sub[i]
			} else {
				rv = res
			}
			penv.vars[n] = rv
			if len(names) == 1 {
				penv.vars["result"] = rv
			}
		}
		isT := fmt.Sprintf("(= %s %d)", recv.Sub[0].T, ic.tag)
		for _, c := range ic.fc.Ensures {
			e.assume(implies(isT, e.callSiteHyp(c, penv)))
		}
		e.usedContracts[e.w.funcName(ic.fn)] = true
	}
}

// notAllowedNames: heaps of a computed (type-level) mod-set that the current
// function's modifies clause does not allow at type level.
func (e *Enc) notAllowedNames(mods map[string]bool, top bool) []string {
	if top {
		return []string{"anything"}
	}
	var bad []string
	for _, n := range heapNames(mods) {
		ok := false
		for _, m := range e.fc.Modifies {
			pre := strings.TrimSuffix(m, ".*")
			if m == "fresh" {
				continue
			}
			if _, isParam := e.paramByName(pre); isParam && strings.HasSuffix(m, ".*") {
				continue
			}
			if n == pre || strings.HasPrefix(n, pre+".") || strings.HasPrefix(n, pre+"[") || strings.HasPrefix(n, pre+"#") {
				ok = true
			}
		}
		if !ok {
			bad = append(bad, n)
		}
	}
	return bad
}

// callSiteHyp: a callee post-condition as a hypothesis at a call site. A clause
// that speaks about the callee's local variables (visible only inside its own
// body, where the clause is proved) gives the caller nothing.
func (e *Enc) callSiteHyp(c *Clause, penv *SpecEnv) (out string) {
	mode := e.saveMode()
	defer func() {
		if r := recover(); r != nil {
			e.restoreMode(mode)
			if ce, ok := r.(contractErr); ok && (strings.Contains(ce.msg, "unknown identifier") || strings.Contains(ce.msg, "local(") || strings.Contains(ce.msg, "callres(") || strings.Contains(ce.msg, "callarg(") || strings.Contains(ce.msg, "outer(")) {
				out = "true"
				return
			}
			panic(r)
		}
	}()
	return e.safeEvalHyp(c, penv)
}
